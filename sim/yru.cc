#include "yru.h"
#include <stdio.h>
#include <stdlib.h>
#include <string.h>
#include <unistd.h>
#include <sys/stat.h>
#include <ctype.h>
#include <inttypes.h>

const char* msg_name(int m) {
  switch (m) {
    case CALLBACK_MSG_RULE_MATCHING: return "MATCH";
    case CALLBACK_MSG_RULE_NOT_MATCHING: return "NOMATCH";
    case CALLBACK_MSG_SCAN_FINISHED: return "FINISHED";
    case CALLBACK_MSG_IMPORT_MODULE: return "IMPORT";
    case CALLBACK_MSG_MODULE_IMPORTED: return "IMPORTED";
    case CALLBACK_MSG_TOO_MANY_MATCHES: return "TOO_MANY";
    case CALLBACK_MSG_CONSOLE_LOG: return "LOG";
    case CALLBACK_MSG_TOO_SLOW_SCANNING: return "TOO_SLOW";
  }
  return "?";
}

const char* yr_error_name(int c) {
  switch (c) {
    case ERROR_SUCCESS: return "SUCCESS";
    case ERROR_INSUFFICIENT_MEMORY: return "INSUFFICIENT_MEMORY";
    case ERROR_COULD_NOT_OPEN_FILE: return "COULD_NOT_OPEN_FILE";
    case ERROR_COULD_NOT_MAP_FILE: return "COULD_NOT_MAP_FILE";
    case ERROR_INVALID_FILE: return "INVALID_FILE";
    case ERROR_CORRUPT_FILE: return "CORRUPT_FILE";
    case ERROR_UNSUPPORTED_FILE_VERSION: return "UNSUPPORTED_FILE_VERSION";
    case ERROR_SCAN_TIMEOUT: return "SCAN_TIMEOUT";
    case ERROR_CALLBACK_ERROR: return "CALLBACK_ERROR";
    case ERROR_TOO_MANY_MATCHES: return "TOO_MANY_MATCHES";
    case ERROR_INVALID_ARGUMENT: return "INVALID_ARGUMENT";
    case ERROR_INVALID_EXTERNAL_VARIABLE_TYPE: return "INVALID_EXTERNAL_VARIABLE_TYPE";
    case ERROR_DUPLICATED_EXTERNAL_VARIABLE: return "DUPLICATED_EXTERNAL_VARIABLE";
    case ERROR_BLOCK_NOT_READY: return "BLOCK_NOT_READY";
    case ERROR_WRITING_FILE: return "WRITING_FILE";
    case ERROR_CALLBACK_REQUIRED: return "CALLBACK_REQUIRED";
    case ERROR_EXEC_STACK_OVERFLOW: return "EXEC_STACK_OVERFLOW";
    case ERROR_TOO_MANY_RE_FIBERS: return "TOO_MANY_RE_FIBERS";
    case ERROR_INTERNAL_FATAL_ERROR: return "INTERNAL_FATAL_ERROR";
  }
  static __thread char buf[24]; snprintf(buf, sizeof buf, "ERR_%d", c); return buf;
}

static void put_bytes(std::string& out, const uint8_t* p, size_t n) {
  static const char* d = "0123456789abcdef";
  for (size_t i = 0; i < n; i++) { out += d[p[i] >> 4]; out += d[p[i] & 15]; }
}
static void put_printable(std::string& out, const char* p, size_t n) {
  for (size_t i = 0; i < n; i++) { unsigned char c = p[i]; if (isprint(c) && c != '\\') out += (char) c; else { char b[8]; snprintf(b, sizeof b, "\\x%02x", c); out += b; } }
}

static void walk(YR_OBJECT* o, std::string& out, int depth) {
  if (!o || depth > 24) return;
  char b[64];
  switch (o->type) {
    case OBJECT_TYPE_INTEGER: if (o->value.i == YR_UNDEFINED) out += "=U"; else { snprintf(b, sizeof b, "=%" PRId64, o->value.i); out += b; } break;
    case OBJECT_TYPE_FLOAT: if (o->value.i == YR_UNDEFINED) out += "=U"; else { snprintf(b, sizeof b, "=%.9g", o->value.d); out += b; } break;
    case OBJECT_TYPE_STRING: if (!o->value.ss) out += "=U"; else { out += "=\""; put_printable(out, o->value.ss->c_string, o->value.ss->length); out += "\""; } break;
    case OBJECT_TYPE_STRUCTURE: {
      out += "{";
      for (YR_STRUCTURE_MEMBER* m = object_as_structure(o)->members; m; m = m->next) {
        if (m->object->type == OBJECT_TYPE_FUNCTION) continue;
        out += m->object->identifier ? m->object->identifier : "?"; walk(m->object, out, depth + 1); out += ";";
      }
      out += "}"; break; }
    case OBJECT_TYPE_ARRAY: {
      out += "[";
      YR_ARRAY_ITEMS* it = object_as_array(o)->items;
      if (it) for (int i = 0; i < it->length; i++) if (it->objects[i]) { snprintf(b, sizeof b, "%d", i); out += b; walk(it->objects[i], out, depth + 1); out += ","; }
      out += "]"; break; }
    case OBJECT_TYPE_DICTIONARY: {
      out += "<";
      YR_DICTIONARY_ITEMS* it = object_as_dictionary(o)->items;
      if (it) for (int i = 0; i < it->used; i++) { put_printable(out, it->objects[i].key->c_string, it->objects[i].key->length); walk(it->objects[i].obj, out, depth + 1); out += ","; }
      out += ">"; break; }
    default: break;
  }
}
std::string object_tree(YR_OBJECT* o) { std::string s; walk(o, s, 0); return s; }

int recorder_callback(YR_SCAN_CONTEXT* ctx, int msg, void* data, void* user) {
  Recorder& r = *(Recorder*) user;
  if (msg == CALLBACK_MSG_TOO_SLOW_SCANNING && r.skip_too_slow) { r.too_slow++; return r.too_slow_reply; }
  int idx = r.nmsgs++;
  r.kinds.push_back(msg);
  std::string& t = r.text;
  t += msg_name(msg);
  char b[96];
  switch (msg) {
    case CALLBACK_MSG_RULE_MATCHING:
    case CALLBACK_MSG_RULE_NOT_MATCHING: {
      YR_RULE* rule = (YR_RULE*) data;
      t += ' '; t += rule->ns->name; t += ':'; t += rule->identifier;
      if (msg == CALLBACK_MSG_RULE_MATCHING) {
        const char* tag; t += " tags=[";
        yr_rule_tags_foreach(rule, tag) { t += tag; t += ','; }
        t += "] metas=[";
        YR_META* meta;
        yr_rule_metas_foreach(rule, meta) {
          t += meta->identifier; t += '=';
          if (meta->type == META_TYPE_STRING) { t += '"'; t += meta->string; t += '"'; }
          else { snprintf(b, sizeof b, "%" PRId64 "%s", meta->integer, meta->type == META_TYPE_BOOLEAN ? "b" : ""); t += b; }
          t += ',';
        }
        t += "] strings=[";
        YR_STRING* s;
        yr_rule_strings_foreach(rule, s) {
          YR_MATCH* m; bool any = false;
          yr_string_matches_foreach(ctx, s, m) {
            if (!any) { t += s->identifier; t += ':'; any = true; }
            snprintf(b, sizeof b, "(%" PRId64 ",%d,%u,", m->base + m->offset, m->match_length, m->xor_key); t += b;
            if (r.with_match_data) put_bytes(t, m->data, m->data_length);
            t += ')';
          }
          if (any) t += ';';
        }
        t += ']';
      }
      break; }
    case CALLBACK_MSG_IMPORT_MODULE: {
      YR_MODULE_IMPORT* mi = (YR_MODULE_IMPORT*) data;
      t += ' '; t += mi->module_name;
      if (r.module_data && r.module_data_for == mi->module_name) { mi->module_data = (void*) r.module_data; mi->module_data_size = r.module_data_size; }
      break; }
    case CALLBACK_MSG_MODULE_IMPORTED: {
      YR_OBJECT* o = (YR_OBJECT*) data;
      t += ' '; t += o->identifier ? o->identifier : "?";
      if (r.with_module_tree) { std::string tree = object_tree(o); Hash64 h; h.add(tree); snprintf(b, sizeof b, " tree=%016" PRIx64 " len=%zu", h.h, tree.size()); t += b; }
      break; }
    case CALLBACK_MSG_TOO_MANY_MATCHES: {
      YR_STRING* s = (YR_STRING*) data; r.too_many++;
      t += ' '; t += s->identifier; break; }
    case CALLBACK_MSG_CONSOLE_LOG: t += ' '; put_printable(t, (const char*) data, strlen((const char*) data)); break;
    default: break;
  }
  t += '\n';
  int reply = CALLBACK_CONTINUE;
  if (msg == CALLBACK_MSG_TOO_MANY_MATCHES) reply = r.too_many_reply;
  if (idx == r.reply_at) reply = r.reply_code;
  if (r.hook) { int o = r.hook(r, ctx, msg, data); if (o >= 0) reply = o; }
  return reply;
}

// ---------------------------------------------------------------- compile ---
struct CompCtx { std::string* msgs; int errors; const CompileSpec* spec; };
static void comp_cb(int level, const char* file, int line, const YR_RULE* rule, const char* msg, void* user) {
  CompCtx* c = (CompCtx*) user;
  char b[64]; snprintf(b, sizeof b, "%s:%d: ", level == YARA_ERROR_LEVEL_ERROR ? "error" : "warning", line);
  *c->msgs += b; *c->msgs += msg ? msg : "(null)"; *c->msgs += '\n';
  if (level == YARA_ERROR_LEVEL_ERROR) c->errors++;
}
static const char* inc_cb(const char* name, const char* cur, const char* ns, void* user) {
  CompCtx* c = (CompCtx*) user;
  auto it = c->spec->includes.find(name);
  if (it == c->spec->includes.end()) return NULL;
  return strdup(it->second.c_str());
}
static void inc_free(const char* p, void* user) { free((void*) p); }

uint8_t g_stack_junk = 0;
// what an earlier call left on the stack is one more thing a saved image must not depend on
__attribute__((noinline)) static void dirty_stack(uint8_t b) { if (!b) return; volatile uint8_t junk[24576]; for (size_t i = 0; i < sizeof junk; i++) junk[i] = b; }
CompileResult compile_rules(const CompileSpec& spec) {
  CompileResult res;
  dirty_stack(g_stack_junk);
  YR_COMPILER* c = NULL;
  res.rc = yr_compiler_create(&c);
  if (res.rc != ERROR_SUCCESS) return res;
  CompCtx ctx{&res.messages, 0, &spec};
  yr_compiler_set_callback(c, comp_cb, &ctx);
  if (!spec.includes.empty()) yr_compiler_set_include_callback(c, inc_cb, inc_free, &ctx);
  for (auto& e : spec.externals) {
    int rc = ERROR_SUCCESS;
    dirty_stack(g_stack_junk);
    if (e.type == 'i') rc = yr_compiler_define_integer_variable(c, e.id.c_str(), e.i);
    else if (e.type == 'b') rc = yr_compiler_define_boolean_variable(c, e.id.c_str(), (int) e.i);
    else if (e.type == 'f') rc = yr_compiler_define_float_variable(c, e.id.c_str(), e.f);
    else rc = yr_compiler_define_string_variable(c, e.id.c_str(), e.s.c_str());
    if (rc != ERROR_SUCCESS) { res.rc = rc; yr_compiler_destroy(c); return res; }
  }
  for (auto& s : spec.sources) {
    int n = yr_compiler_add_string(c, s.second.c_str(), s.first.empty() ? NULL : s.first.c_str());
    if (n) { res.errors = n; break; }
  }
  if (!res.errors) res.rc = yr_compiler_get_rules(c, &res.rules);
  if (ctx.errors > res.errors) res.errors = ctx.errors;
  yr_compiler_destroy(c);
  return res;
}
YR_RULES* compile_simple(const std::string& src) {
  CompileSpec s; s.sources.push_back({"", src});
  CompileResult r = compile_rules(s);
  if (!r.rules) { fprintf(stderr, "harness: rule text does not compile: %s\n%.300s\n", r.messages.c_str(), src.c_str()); abort(); }
  return r.rules;
}

// ---------------------------------------------------------------- streams ---
static size_t ms_read(void* ptr, size_t size, size_t count, void* ud) {
  MemStream* m = (MemStream*) ud; m->reads++;
  // fread semantics: whole items only; the simulated disk may hand the bytes
  // over in pieces, which the stream callback assembles (like fread does).
  size_t i = 0;
  for (; i < count; i++) {
    if (m->pos + size > m->data.size()) { m->pos = m->data.size() < m->pos ? m->pos : m->pos; break; }
    size_t done = 0;
    while (done < size) { size_t c = size - done; if (m->max_chunk && c > m->max_chunk) c = m->max_chunk; memcpy((char*) ptr + i * size + done, m->data.data() + m->pos + done, c); done += c; }
    m->pos += size;
  }
  if (i < count) m->pos = m->data.size();   // a short item consumes the tail, as fread does
  return i;
}
static size_t ms_write(const void* ptr, size_t size, size_t count, void* ud) {
  MemStream* m = (MemStream*) ud;
  if (m->fail_write_after_items >= 0 && m->writes >= m->fail_write_after_items) return 0;
  if (m->write_calls++ == m->fail_write_once_at) return 0;
  m->writes++;
  m->data.append((const char*) ptr, size * count);
  return count;
}
YR_STREAM MemStream::stream() { YR_STREAM s; s.user_data = this; s.read = ms_read; s.write = ms_write; return s; }
bool save_rules(YR_RULES* r, std::string& out, int* rc) {
  MemStream m; YR_STREAM s = m.stream();
  int e = yr_rules_save_stream(r, &s);
  if (rc) *rc = e;
  out.swap(m.data);
  return e == ERROR_SUCCESS;
}
int load_rules(const std::string& image, YR_RULES** out, size_t max_chunk) {
  MemStream m; m.data = image; m.max_chunk = max_chunk; YR_STREAM s = m.stream();
  return yr_rules_load_stream(&s, out);
}

#if defined(__SANITIZE_ADDRESS__)
extern "C" void __asan_poison_memory_region(void const volatile* addr, size_t size);
extern "C" void __asan_unpoison_memory_region(void const volatile* addr, size_t size);
#endif
extern "C" {
#include <yara/arena.h>
}
void poison_slack(YR_RULES* r, bool on) {
#if defined(__SANITIZE_ADDRESS__)
  if (!r || !r->arena) return;
  for (uint32_t i = 0; i < r->arena->num_buffers; i++) {
    YR_ARENA_BUFFER* b = &r->arena->buffers[i];
    if (!b->data || b->size <= b->used) continue;
    if (on) __asan_poison_memory_region(b->data + b->used, b->size - b->used);
    else __asan_unpoison_memory_region(b->data + b->used, b->size - b->used);
  }
#endif
}

// ----------------------------------------------------------------- corpus ---
std::string read_file(const std::string& path, bool* ok) {
  std::string s; FILE* f = fopen(path.c_str(), "rb");
  if (!f) { if (ok) *ok = false; return s; }
  char buf[65536]; size_t n; while ((n = fread(buf, 1, sizeof buf, f)) > 0) s.append(buf, n);
  fclose(f); if (ok) *ok = true; return s;
}
bool write_file(const std::string& path, const std::string& data) {
  FILE* f = fopen(path.c_str(), "wb"); if (!f) return false;
  size_t n = fwrite(data.data(), 1, data.size(), f); fclose(f); return n == data.size();
}
std::string repo_root() { const char* r = getenv("REPO"); return r && *r ? r : "/repo"; }
std::string corpus_file(const std::string& rel) {
  static std::map<std::string, std::string> cache;
  auto it = cache.find(rel); if (it != cache.end()) return it->second;
  bool ok; std::string d = read_file(repo_root() + "/tests/data/" + rel, &ok);
  if (!ok) { fprintf(stderr, "harness: corpus file missing: %s\n", rel.c_str()); abort(); }
  cache[rel] = d; return d;
}
std::string tmp_dir() {
  static std::string d;
  if (d.empty()) {
    const char* base = getenv("VERIF_TMP"); std::string b = base && *base ? base : "/tmp";
    char buf[512]; snprintf(buf, sizeof buf, "%s/yrsim.%07d.XXXXXX", b.c_str(), (int) getpid());   // fixed length: path lengths decide loop counts in instrumented code
    if (!mkdtemp(buf)) { perror("mkdtemp"); abort(); }
    d = buf;
  }
  return d;
}

void emit_line(const J& j) { std::string s = j.dump(); s += '\n'; fwrite(s.data(), 1, s.size(), stdout); fflush(stdout); }

Args::Args(int argc, char** argv) {
  for (int i = 1; i < argc; i++) {
    std::string a = argv[i];
    if (a.rfind("--", 0) == 0) { std::string k = a.substr(2); size_t eq = k.find('=');
      if (eq != std::string::npos) kv[k.substr(0, eq)] = k.substr(eq + 1);
      else if (i + 1 < argc && strncmp(argv[i + 1], "--", 2)) kv[k] = argv[++i]; else kv[k] = "1"; }
    else pos.push_back(a);
  }
}

// ------------------------------------------------------- block iterator -----
static const uint8_t* bi_fetch(YR_MEMORY_BLOCK* b) {
  BlockIter::Ctx* c = (BlockIter::Ctx*) b->context;
  c->it->fetches++;
  if (c->it->fetch_null.count(c->idx)) return NULL;
  return c->it->data + c->it->blocks[c->idx].first;
}
static YR_MEMORY_BLOCK* bi_deliver(BlockIter* b, int target, int64_t idx) {
  bool nr = b->not_ready_at.count(idx) > 0;
  if (b->passes == 0) { auto it = b->nr_target.find(target); if (it != b->nr_target.end() && it->second > 0) { it->second--; nr = true; } }
  else { int64_t o = b->reiter_calls++; if (b->reiter_nr.count(o)) nr = true; }
  if (nr) { b->pending = target; b->not_ready_fired++; b->it.last_error = ERROR_BLOCK_NOT_READY; return NULL; }
  b->pending = -1;
  b->it.last_error = ERROR_SUCCESS;
  if (target >= (int) b->mb.size()) { b->pos = target; b->passes++; return NULL; }
  b->pos = target;
  return &b->mb[target];
}
static YR_MEMORY_BLOCK* bi_first(YR_MEMORY_BLOCK_ITERATOR* it) {
  BlockIter* b = (BlockIter*) it->context; int64_t idx = b->calls++; b->firsts++;
  if (b->on_call) b->on_call(*b, idx, true);
  return bi_deliver(b, 0, idx);
}
static YR_MEMORY_BLOCK* bi_next(YR_MEMORY_BLOCK_ITERATOR* it) {
  BlockIter* b = (BlockIter*) it->context; int64_t idx = b->calls++; b->nexts++;
  if (b->on_call) b->on_call(*b, idx, false);
  int target = b->pending >= 0 ? b->pending : b->pos + 1;
  return bi_deliver(b, target, idx);
}
static uint64_t bi_size(YR_MEMORY_BLOCK_ITERATOR* it) { return ((BlockIter*) it->context)->size; }
void BlockIter::init(const void* d, size_t n, const std::vector<std::pair<size_t, size_t>>& parts) {
  data = (const uint8_t*) d; size = n; blocks = parts;
  mb.resize(parts.size()); ctx.resize(parts.size());
  for (size_t i = 0; i < parts.size(); i++) { ctx[i] = {this, (int) i}; mb[i].size = parts[i].second; mb[i].base = parts[i].first; mb[i].context = &ctx[i]; mb[i].fetch_data = bi_fetch; }
  pos = -1; pending = -1; calls = 0; passes = 0; reiter_calls = 0;
  it.context = this; it.first = bi_first; it.next = bi_next; it.file_size = report_size ? bi_size : NULL; it.last_error = ERROR_SUCCESS;
}
