// State shared between the CLI seams (cliseam.cc) and the sim_cli engine.
#pragma once
#include "sim.h"
struct CliCapture {
  bool active = false;        // printf family goes to the buffers below
  bool scheduled = false;     // threads / semaphores go through the baton scheduler
  std::string out, err;
  uint64_t dir_seed = 1;
  int64_t print_calls = 0, threads_created = 0, timed_waits = 0, open_faults = 0;
  std::function<void(int)> on_exit;    // exit() called by the CLI
};
extern CliCapture g_cap;
