#include "simsched.h"
#include <errno.h>
#include <string.h>
#include <stdio.h>
#include <unistd.h>
#include <map>
#include <set>
#include <algorithm>

enum { T_RUNNABLE = 0, T_BLOCKED = 1, T_DONE = 2 };
struct Task {
  int id; pthread_t th; sem_t sem; int state = T_RUNNABLE;
  void* wait_obj = nullptr; int wait_kind = 0; int64_t deadline_ns = -1; bool timed_out = false;
  int prio = 0; std::function<void()> fn; int64_t bb_countdown = 1000; bool in_sched = false; bool started = false;
  std::set<void*> held;
};
struct MutexState { int owner = -1; std::vector<int> waiters; };
struct SemState { long count = 0; std::vector<int> waiters; };

static std::vector<Task*> g_tasks;
static int g_cur = -1;
static Rng g_rng(1), g_rng_bb(2), g_rng_wake(3);
static SchedPolicy g_pol;
static std::vector<SchedEntry> g_trace;            // what this run did
static std::vector<SchedEntry> g_script;           // what this run must do (scripted mode)
static bool g_scripted = false;
static FILE* g_dbg = nullptr; static int64_t g_dbg_lo = 1, g_dbg_hi = 0;
static size_t g_script_vol = 0; static int64_t g_forced_n = 0, g_wake_n = 0;
static std::map<int64_t, int> g_script_vol_at, g_script_forced, g_script_wake;
static SchedStats g_stats;
static sem_t g_main_sem;
static bool g_active = false;
static SchedStatus g_status = SCHED_OK;
static __thread Task* t_self = nullptr;
static std::map<void*, MutexState> g_mutexes;
static std::map<void*, SemState> g_sems;
static std::set<int64_t> g_change_points, g_bb_change_points;
static int64_t g_sync_counter = 0, g_bb_decisions = 0, g_rr_counter = 0;
std::function<void(int, int, int)> g_on_switch;
std::function<void(int, bool)> g_on_lockop;

static void hash_event(int a, int b, int k) { uint64_t v = ((uint64_t) (a + 1) << 40) ^ ((uint64_t) (b + 1) << 20) ^ (uint64_t) k; for (int i = 0; i < 8; i++) { g_stats.hash ^= (v >> (8 * i)) & 0xff; g_stats.hash *= 1099511628211ULL; } }

static std::vector<Task*> runnable(Task* except = nullptr) { std::vector<Task*> v; for (auto t : g_tasks) if (t->state == T_RUNNABLE && t != except) v.push_back(t); return v; }

static Task* pick(const std::vector<Task*>& c) {
  if (c.empty()) return nullptr;
  switch (g_pol.kind) {
    case 1: { Task* b = c[0]; for (auto t : c) if (t->prio > b->prio) b = t; return b; }
    case 2: { for (auto t : c) if (t->id > g_cur) return t; return c[0]; }
    case 3: { std::vector<Task*> o; for (auto t : c) if (t->id != g_pol.starved) o.push_back(t); if (!o.empty()) return o[g_rng.below(o.size())]; return c[0]; }
    default: return c[g_rng.below(c.size())];
  }
}

// the running task cannot continue (blocked / finished): who gets the baton
static Task* pick_forced(const std::vector<Task*>& c) {
  if (c.empty()) return nullptr;
  Task* t = nullptr; int64_t n = g_forced_n++;
  if (g_scripted) { auto it = g_script_forced.find(n); if (it != g_script_forced.end()) for (auto x : c) if (x->id == it->second) t = x; if (!t) t = c[0]; }
  else t = pick(c);
  g_trace.push_back({1, n, t->id});
  return t;
}
static size_t pick_waiter(size_t n_waiters) {
  int64_t n = g_wake_n++; size_t k;
  if (g_scripted) { auto it = g_script_wake.find(n); k = (it != g_script_wake.end() && (size_t) it->second < n_waiters) ? (size_t) it->second : 0; }
  else k = g_rng_wake.below(n_waiters);
  g_trace.push_back({2, n, (int) k});
  return k;
}
static void park_forever() { for (;;) pause(); }

static void fail_run(SchedStatus st, const std::string& info) {
  g_status = st; g_stats.deadlock_info = info;
  sem_post(&g_main_sem);
  park_forever();
}

static void switch_to(Task* self, Task* next, int kind) {
  if (next == self) return;
  g_stats.switches++; hash_event(self ? self->id : -1, next->id, kind);
  if (g_on_switch) g_on_switch(self ? self->id : -1, next->id, kind);
  g_cur = next->id;
  sem_post(&next->sem);
  if (self) { while (sem_wait(&self->sem) != 0 && errno == EINTR) {} }
}

// no runnable task: let simulated time pass to the earliest timed wait, or report a deadlock
static Task* wake_timed_or_deadlock() {
  Task* best = nullptr;
  for (auto t : g_tasks) if (t->state == T_BLOCKED && t->deadline_ns >= 0 && (!best || t->deadline_ns < best->deadline_ns)) best = t;
  if (best) {
    if (g_clock.now_ns < best->deadline_ns) g_clock.now_ns = best->deadline_ns;
    best->timed_out = true; best->state = T_RUNNABLE; g_stats.timed_wakeups++;
    return best;
  }
  std::string info; int blocked = 0;
  for (auto t : g_tasks) if (t->state == T_BLOCKED) { blocked++; char b[96]; snprintf(b, sizeof b, "task %d blocked on %s; ", t->id, t->wait_kind == YK_MUTEX ? "mutex" : t->wait_kind == YK_SEM ? "semaphore" : "join"); info += b; }
  if (blocked) fail_run(SCHED_DEADLOCK, info);
  return nullptr;
}

static void block_self(Task* self, void* obj, int kind, int64_t deadline_ns) {
  self->state = T_BLOCKED; self->wait_obj = obj; self->wait_kind = kind; self->deadline_ns = deadline_ns; self->timed_out = false;
  Task* next = pick_forced(runnable());
  if (!next) next = wake_timed_or_deadlock();
  if (!next) fail_run(SCHED_DEADLOCK, "no runnable task");
  if (next != self) switch_to(self, next, kind);
  self->state = T_RUNNABLE; self->wait_obj = nullptr; self->deadline_ns = -1;
}

static int64_t draw_bb() { return 1 + (int64_t) g_rng_bb.below((uint64_t) (2 * g_pol.bb_mean)); }

static bool is_sync_kind(int k) { return k == YK_MUTEX || k == YK_SIGNAL || k == YK_SEM || k == YK_THREAD || k == YK_FILE || k == YK_CALLBACK || k == YK_ITER || k == YK_PRINT || k == YK_DIR || k == YK_CLOCK; }

void sched_yield(int kind, const void* site) {
  Task* self = t_self;
  if (!g_active || !self || self->in_sched) return;
  self->in_sched = true;
  g_stats.yields_by_kind[kind & 15]++;
  if (g_dbg) fprintf(g_dbg, "%lld t%d k%d bb=%llu %s\n", (long long) g_stats.decisions, self->id, kind, (unsigned long long) g_bb_count, (kind == YK_ALLOC || kind == YK_FREE || kind == YK_BB) ? sim_symbolize((void*) site).c_str() : "");
  if (++g_stats.decisions > g_pol.max_steps) fail_run(SCHED_BUDGET, "step budget exhausted");
  bool want = false;
  if (g_scripted) {
    auto it = g_script_vol_at.find(g_stats.decisions);
    if (it != g_script_vol_at.end()) { Task* next = nullptr; for (auto t : g_tasks) if (t->id == it->second && t->state == T_RUNNABLE) next = t; if (next && next != self) { g_trace.push_back({0, g_stats.decisions, next->id}); switch_to(self, next, kind); } }
    self->in_sched = false; return;
  }
  if (g_pol.kind == 0) { int den = g_pol.switch_den[kind & 15]; want = den > 0 && g_rng.below(den) == 0; }
  else if (g_pol.kind == 1) {
    if (kind == YK_BB) { if (g_bb_change_points.count(++g_bb_decisions)) { self->prio = -(int) g_bb_decisions; want = true; } }
    else if (is_sync_kind(kind) || kind == YK_ALLOC || kind == YK_FREE) { if (g_change_points.count(++g_sync_counter)) { self->prio = -1000000 - (int) g_sync_counter; want = true; } }
  } else if (g_pol.kind == 2) { int q = g_pol.switch_den[0] > 0 ? g_pol.switch_den[0] : 8; want = (++g_rr_counter % q) == 0; }
  else { want = self->id == g_pol.starved || (g_pol.switch_den[kind & 15] > 0 && g_rng.below(g_pol.switch_den[kind & 15]) == 0); }
  if (want) {
    std::vector<Task*> c = runnable(g_pol.kind == 1 ? nullptr : self);
    Task* next = pick(c);
    if (next && next != self) { g_trace.push_back({0, g_stats.decisions, next->id}); switch_to(self, next, kind); }
  }
  self->in_sched = false;
}

static void bb_hook(const void* pc) {
  Task* t = t_self; if (!t || t->in_sched) return;
  if (g_dbg && g_stats.decisions >= g_dbg_lo && g_stats.decisions <= g_dbg_hi) fprintf(g_dbg, "   bb t%d %p %s\n", t->id, pc, sim_symbolize((void*) pc).c_str());
  if (--t->bb_countdown > 0) return;
  t->bb_countdown = draw_bb();
  sched_yield(YK_BB, pc);
}

static void* trampoline(void* arg) {
  Task* self = (Task*) arg; t_self = self;
  while (sem_wait(&self->sem) != 0 && errno == EINTR) {}
  self->started = true;
  self->fn();
  self->in_sched = true;
  self->state = T_DONE;
  for (auto t : g_tasks) if (t->state == T_BLOCKED && t->wait_kind == YK_THREAD && t->wait_obj == (void*) self) t->state = T_RUNNABLE;
  Task* next = pick_forced(runnable());
  if (!next) next = wake_timed_or_deadlock();
  if (next) { g_stats.switches++; hash_event(self->id, next->id, YK_THREAD); if (g_on_switch) g_on_switch(self->id, next->id, YK_THREAD); g_cur = next->id; sem_post(&next->sem); }
  else sem_post(&g_main_sem);      // everybody is done
  t_self = nullptr;
  return nullptr;
}

static int hook_yield_mutex_lock(void* m) { return sched_mutex_lock(m); }
static int hook_yield_mutex_unlock(void* m) { return sched_mutex_unlock(m); }

void sched_begin_scripted(uint64_t seed, const SchedPolicy& p, const std::vector<SchedEntry>& script) {
  sched_begin(seed, p);
  g_scripted = true; g_script = script;
  for (auto& e : script) { if (e.kind == 0) g_script_vol_at[e.at] = e.to; else if (e.kind == 1) g_script_forced[e.at] = e.to; else g_script_wake[e.at] = e.to; }
}
const std::vector<SchedEntry>& sched_trace() { return g_trace; }
void sched_begin(uint64_t seed, const SchedPolicy& p) {
  g_rng = Rng(seed); g_rng_bb = Rng(sim_mix64(seed ^ 0xbb)); g_rng_wake = Rng(sim_mix64(seed ^ 0x3a)); g_pol = p;
  if (g_dbg) { fclose(g_dbg); g_dbg = nullptr; } if (getenv("SIM_SCHED_LOG")) { static int n; char b[256]; snprintf(b, sizeof b, "%s.%d", getenv("SIM_SCHED_LOG"), n++); g_dbg = fopen(b, "w"); if (getenv("SIM_BB_RANGE")) sscanf(getenv("SIM_BB_RANGE"), "%ld,%ld", &g_dbg_lo, &g_dbg_hi); }
  g_trace.clear(); g_script.clear(); g_scripted = false; g_forced_n = g_wake_n = 0; g_script_vol_at.clear(); g_script_forced.clear(); g_script_wake.clear(); g_stats = SchedStats(); g_status = SCHED_OK; g_cur = -1;
  for (auto t : g_tasks) { sem_destroy(&t->sem); delete t; }
  g_tasks.clear(); g_mutexes.clear(); g_sems.clear(); g_change_points.clear(); g_bb_change_points.clear(); g_sync_counter = g_bb_decisions = g_rr_counter = 0;
  sem_init(&g_main_sem, 0, 0);
  if (p.kind == 1) {
    for (int i = 0; i < p.change_points; i++) g_change_points.insert(1 + (int64_t) g_rng.below((uint64_t) std::max<int64_t>(p.sync_yields_estimate, 4)));
    int nbb = (int) g_rng.below(3); for (int i = 0; i < nbb; i++) g_bb_change_points.insert(1 + (int64_t) g_rng.below(200));
  }
  g_active = true;
  g_sync.yield = sched_yield; g_sync.mutex_lock = hook_yield_mutex_lock; g_sync.mutex_unlock = hook_yield_mutex_unlock;
  g_bb_hook = bb_hook;
}

int sched_spawn(const std::function<void()>& fn) {
  Task* t = new Task(); t->id = (int) g_tasks.size(); t->fn = fn; t->prio = (int) g_rng.below(1000) + 1; t->bb_countdown = draw_bb();
  sem_init(&t->sem, 0, 0);
  g_tasks.push_back(t); g_stats.tasks = (int) g_tasks.size();
  pthread_attr_t a; pthread_attr_init(&a); pthread_attr_setstacksize(&a, 4 << 20);
  if (pthread_create(&t->th, &a, trampoline, t) != 0) { perror("pthread_create"); abort(); }
  pthread_attr_destroy(&a);
  return t->id;
}

SchedStatus sched_run() {
  if (g_tasks.empty()) return SCHED_OK;
  Task* first = pick_forced(runnable());
  g_cur = first->id; hash_event(-1, first->id, 0);
  sem_post(&first->sem);
  while (sem_wait(&g_main_sem) != 0 && errno == EINTR) {}
  if (g_status == SCHED_OK) for (auto t : g_tasks) pthread_join(t->th, nullptr);
  return g_status;
}

void sched_end() {
  g_active = false; g_sync.yield = nullptr; g_sync.mutex_lock = nullptr; g_sync.mutex_unlock = nullptr; g_bb_hook = nullptr; g_on_switch = nullptr; g_on_lockop = nullptr;
}
const SchedStats& sched_stats() { return g_stats; }
int sched_self() { return t_self ? t_self->id : -1; }
int sched_locks_held() { return t_self ? (int) t_self->held.size() : 0; }

int sched_mutex_lock(void* m) {
  Task* self = t_self;
  if (!g_active || !self) return pthread_mutex_lock((pthread_mutex_t*) m);
  sched_yield(YK_MUTEX, m);
  self->in_sched = true;
  if (g_on_lockop) g_on_lockop(self->id, !self->held.empty());
  MutexState& ms = g_mutexes[m];
  if (ms.owner == -1) ms.owner = self->id;
  else { g_stats.blocked_on_mutex++; ms.waiters.push_back(self->id); block_self(self, m, YK_MUTEX, -1); /* ownership was handed over by unlock */ }
  self->held.insert(m);
  self->in_sched = false;
  return 0;
}
int sched_mutex_unlock(void* m) {
  Task* self = t_self;
  if (!g_active || !self) return pthread_mutex_unlock((pthread_mutex_t*) m);
  self->in_sched = true;
  if (g_on_lockop) g_on_lockop(self->id, !self->held.empty());
  MutexState& ms = g_mutexes[m];
  self->held.erase(m);
  ms.owner = -1;
  if (!ms.waiters.empty()) { size_t k = pick_waiter(ms.waiters.size()); int w = ms.waiters[k]; ms.waiters.erase(ms.waiters.begin() + k); ms.owner = w; g_tasks[w]->state = T_RUNNABLE; }
  self->in_sched = false;
  sched_yield(YK_MUTEX, m);
  return 0;
}
int sched_sem_init(void* s, unsigned value) { g_sems[s] = SemState(); g_sems[s].count = value; return 0; }
int sched_sem_wait(void* s, const struct timespec* abs) {
  Task* self = t_self;
  if (!g_active || !self) { errno = ENOSYS; return -1; }
  sched_yield(YK_SEM, s);
  self->in_sched = true;
  SemState& ss = g_sems[s]; int rc = 0;
  if (ss.count > 0) ss.count--;
  else {
    int64_t dl = -1;
    if (abs) { dl = ((int64_t) abs->tv_sec - g_clock.epoch0) * 1000000000LL + abs->tv_nsec; if (dl <= g_clock.now_ns) { self->in_sched = false; errno = ETIMEDOUT; return -1; } }
    g_stats.blocked_on_sem++; ss.waiters.push_back(self->id);
    block_self(self, s, YK_SEM, dl);
    if (self->timed_out) { auto& w = g_sems[s].waiters; w.erase(std::remove(w.begin(), w.end(), self->id), w.end()); errno = ETIMEDOUT; rc = -1; self->timed_out = false; }
  }
  self->in_sched = false;
  return rc;
}
int sched_sem_post(void* s) {
  Task* self = t_self;
  if (!g_active || !self) { errno = ENOSYS; return -1; }
  self->in_sched = true;
  SemState& ss = g_sems[s];
  if (!ss.waiters.empty()) { size_t k = pick_waiter(ss.waiters.size()); int w = ss.waiters[k]; ss.waiters.erase(ss.waiters.begin() + k); g_tasks[w]->state = T_RUNNABLE; g_tasks[w]->timed_out = false; }
  else ss.count++;
  self->in_sched = false;
  sched_yield(YK_SEM, s);
  return 0;
}
int sched_join(int task) {
  Task* self = t_self;
  if (!g_active || !self || task < 0 || task >= (int) g_tasks.size()) return EINVAL;
  sched_yield(YK_THREAD, nullptr);
  self->in_sched = true;
  if (g_tasks[task]->state != T_DONE) block_self(self, (void*) g_tasks[task], YK_THREAD, -1);
  self->in_sched = false;
  return 0;
}
