// Seams under the real cli/yara.c, cli/yarac.c and cli/threading.c: threads,
// semaphores, directory order, stdout/stderr sinks, exit.  DESIGN.md §5.C18.
#include "simsched.h"
#include "cliseam.h"
#include <stdarg.h>
#include <stdio.h>
#include <stdlib.h>
#include <string.h>
#include <errno.h>
#include <dirent.h>
#include <fcntl.h>
#include <unistd.h>
#include <algorithm>

CliCapture g_cap;

static void cap_append(std::string& dst, const char* p, size_t n) {
  sched_yield(YK_PRINT, nullptr);       // an unprotected multi-call record can be torn here
  dst.append(p, n);
  g_cap.print_calls++;
}

extern "C" {

int sim_printf(const char* fmt, ...) {
  va_list ap; va_start(ap, fmt);
  if (!g_cap.active) { int r = vprintf(fmt, ap); va_end(ap); return r; }
  char buf[8192]; int n = vsnprintf(buf, sizeof buf, fmt, ap); va_end(ap);
  if (n < 0) return n;
  if ((size_t) n >= sizeof buf) { std::vector<char> big(n + 1); va_start(ap, fmt); vsnprintf(big.data(), big.size(), fmt, ap); va_end(ap); cap_append(g_cap.out, big.data(), n); return n; }
  cap_append(g_cap.out, buf, n); return n;
}
int sim_fprintf(FILE* f, const char* fmt, ...) {
  va_list ap; va_start(ap, fmt);
  if (!g_cap.active || (f != stdout && f != stderr)) { int r = vfprintf(f, fmt, ap); va_end(ap); return r; }
  char buf[8192]; int n = vsnprintf(buf, sizeof buf, fmt, ap); va_end(ap);
  if (n < 0) return n;
  if ((size_t) n >= sizeof buf) n = sizeof buf - 1;
  cap_append(f == stdout ? g_cap.out : g_cap.err, buf, n); return n;
}
int sim_putchar(int c) { if (!g_cap.active) return putchar(c); char ch = (char) c; cap_append(g_cap.out, &ch, 1); return c; }
int sim_puts(const char* s) { if (!g_cap.active) return puts(s); std::string t = std::string(s) + "\n"; cap_append(g_cap.out, t.data(), t.size()); return 1; }
int sim_fputs(const char* s, FILE* f) { if (!g_cap.active || (f != stdout && f != stderr)) return fputs(s, f); cap_append(f == stdout ? g_cap.out : g_cap.err, s, strlen(s)); return 1; }
int sim_fputc(int c, FILE* f) { if (!g_cap.active || (f != stdout && f != stderr)) return fputc(c, f); char ch = (char) c; cap_append(f == stdout ? g_cap.out : g_cap.err, &ch, 1); return c; }

void sim_exit(int code) {
  if (g_cap.on_exit) g_cap.on_exit(code);
  fflush(stdout); fflush(stderr);
  SIM_GCOV_DUMP();
  _exit(code);
}

// ---- threads: created through the scheduler
struct ThreadArg { void* (*fn)(void*); void* arg; };
int sim_pthread_create(pthread_t* th, const pthread_attr_t* attr, void* (*fn)(void*), void* arg) {
  if (!g_cap.scheduled) return pthread_create(th, attr, fn, arg);
  sched_yield(YK_THREAD, nullptr);
  int id = sched_spawn([fn, arg] { fn(arg); });
  *th = (pthread_t) (uintptr_t) (id + 1);
  g_cap.threads_created++;
  return 0;
}
int sim_pthread_join(pthread_t th, void** ret) {
  if (!g_cap.scheduled) return pthread_join(th, ret);
  if (ret) *ret = nullptr;
  return sched_join((int) (uintptr_t) th - 1);
}

// ---- semaphores
int sim_sem_init(sem_t* s, int pshared, unsigned value) { if (!g_cap.scheduled) return sem_init(s, pshared, value); return sched_sem_init(s, value); }
int sim_sem_destroy(sem_t* s) { if (!g_cap.scheduled) return sem_destroy(s); return 0; }
int sim_sem_post(sem_t* s) { if (!g_cap.scheduled) return sem_post(s); return sched_sem_post(s); }
int sim_sem_wait(sem_t* s) { if (!g_cap.scheduled) return sem_wait(s); return sched_sem_wait(s, nullptr); }
int sim_sem_timedwait(sem_t* s, const struct timespec* abs) { if (!g_cap.scheduled) return sem_timedwait(s, abs); g_cap.timed_waits++; return sched_sem_wait(s, abs); }

// ---- directory order: entries are handed out in a seeded permutation
struct SimDir { std::vector<struct dirent> ents; size_t pos = 0; };
DIR* sim_opendir(const char* path) {
  DIR* d = opendir(path); if (!d) return nullptr;
  SimDir* sd = new SimDir(); struct dirent* e;
  while ((e = readdir(d)) != nullptr) sd->ents.push_back(*e);
  closedir(d);
  std::sort(sd->ents.begin(), sd->ents.end(), [](const dirent& a, const dirent& b) { return strcmp(a.d_name, b.d_name) < 0; });
  // the order depends on the run seed and on the directory's position inside the tree, not on where the tree lives
  const char* rel = strstr(path, "/cli/tree"); rel = rel ? rel + 9 : path;
  uint64_t s = g_cap.dir_seed; for (const char* p = rel; *p; p++) s = sim_mix64(s ^ (unsigned char) *p);
  Rng rng(s);
  for (size_t i = sd->ents.size(); i > 1; i--) std::swap(sd->ents[i - 1], sd->ents[rng.below(i)]);
  sched_yield(YK_DIR, nullptr);
  return (DIR*) sd;
}
struct dirent* sim_readdir(DIR* d) { SimDir* sd = (SimDir*) d; sched_yield(YK_DIR, nullptr); if (sd->pos >= sd->ents.size()) return nullptr; return &sd->ents[sd->pos++]; }
int sim_closedir(DIR* d) { delete (SimDir*) d; return 0; }

// ---- file open as seen by the CLI: a path containing "unreadable" cannot be opened (EACCES)
int sim_cli_open(const char* path, int flags, ...) {
  mode_t mode = 0; if (flags & O_CREAT) { va_list ap; va_start(ap, flags); mode = va_arg(ap, int); va_end(ap); }
  sched_yield(YK_FILE, nullptr);
  if (strstr(path, "unreadable")) { g_cap.open_faults++; errno = EACCES; return -1; }
  return open(path, flags, mode);
}

int sim_cli_open64(const char*, int, ...) __attribute__((alias("sim_cli_open")));
struct dirent* sim_readdir64(DIR*) __attribute__((alias("sim_readdir")));

}  // extern "C"
