// The seams: allocator, clock, rand, locks, signals, file syscalls, arena
// capacity.  Called only by yara object code (objcopy-redirected references).
#include "sim.h"
#include <stdlib.h>
#include <string.h>
#include <stdio.h>
#include <errno.h>
#include <time.h>
#include <unistd.h>
#include <fcntl.h>
#include <signal.h>
#include <pthread.h>
#include <stdarg.h>
#include <sys/time.h>
#include <sys/mman.h>
#include <sys/stat.h>
#include <sys/vfs.h>
#include <sys/wait.h>
#include <poll.h>
#include <elf.h>
#include <unordered_map>
#include <set>
#include <algorithm>

SimAlloc g_alloc;
SimClock g_clock;
SimFs g_fs;
void (*g_after_mmap)() = nullptr;
bool (*g_fail_mmap_hook)() = nullptr;
SimSyncHooks g_sync = {0, 0, 0};
size_t g_arena_initial_size = 0;
int64_t g_arena_creates = 0;
int64_t g_sigaction_calls = 0;

static pthread_mutex_t g_tab_mu = PTHREAD_MUTEX_INITIALIZER;
static std::unordered_map<void*, SimAllocRec>* g_live;
static uint64_t g_alloc_seq = 0;

static std::unordered_map<void*, SimAllocRec>& live() {
  if (!g_live) g_live = new std::unordered_map<void*, SimAllocRec>();
  return *g_live;
}

// ---- frame-pointer walk (all yara + sim code is built -fno-omit-frame-pointer)
static __thread uintptr_t t_stack_lo, t_stack_hi;
static void stack_bounds() {
  pthread_attr_t a; void* addr; size_t sz;
  if (pthread_getattr_np(pthread_self(), &a) == 0) {
    pthread_attr_getstack(&a, &addr, &sz);
    t_stack_lo = (uintptr_t) addr; t_stack_hi = t_stack_lo + sz;
    pthread_attr_destroy(&a);
  } else { t_stack_lo = 1; t_stack_hi = ~(uintptr_t) 0; }
}
__attribute__((noinline)) static void capture_bt(void** out, void* fp0) {
  if (!t_stack_hi) stack_bounds();
  uintptr_t* fp = (uintptr_t*) fp0;
  int n = 0;
  while (n < SIM_BT_DEPTH) {
    uintptr_t f = (uintptr_t) fp;
    if (f < t_stack_lo || f + 16 > t_stack_hi || (f & 7)) break;
    uintptr_t ret = fp[1], next = fp[0];
    if (!ret) break;
    out[n++] = (void*) ret;
    if (next <= f) break;
    fp = (uintptr_t*) next;
  }
  while (n < SIM_BT_DEPTH) out[n++] = 0;
}

void sim_alloc_reset() {
  int op = g_alloc.cur_op;
  g_alloc = SimAlloc();
  g_alloc.cur_op = op;
}
size_t sim_alloc_live_count() { pthread_mutex_lock(&g_tab_mu); size_t n = live().size(); pthread_mutex_unlock(&g_tab_mu); return n; }
std::vector<SimAllocRec> sim_alloc_live() {
  std::vector<SimAllocRec> v;
  pthread_mutex_lock(&g_tab_mu);
  for (auto& kv : live()) v.push_back(kv.second);
  pthread_mutex_unlock(&g_tab_mu);
  std::sort(v.begin(), v.end(), [](const SimAllocRec& a, const SimAllocRec& b) { return a.seq < b.seq; });
  return v;
}
void sim_alloc_forget_all() { pthread_mutex_lock(&g_tab_mu); live().clear(); pthread_mutex_unlock(&g_tab_mu); }

static bool should_fail(void* fp) {
  int64_t n = __atomic_add_fetch(&g_alloc.attempts, 1, __ATOMIC_SEQ_CST);
  bool f = false;
  if (g_alloc.fail_at > 0) f = g_alloc.fail_from ? n >= g_alloc.fail_at : n == g_alloc.fail_at;
  if (f) {
    if (g_alloc.failed++ == 0) { capture_bt(g_alloc.fail_bt, fp); g_alloc.first_failed_attempt = n; if (g_alloc.on_first_fail) g_alloc.on_first_fail(); }
    errno = ENOMEM;
  }
  return f;
}
// ---- deterministic heap --------------------------------------------------------------------------------------
#if defined(__SANITIZE_ADDRESS__)
extern "C" void __asan_poison_memory_region(void const volatile* addr, size_t size);
extern "C" void __asan_unpoison_memory_region(void const volatile* addr, size_t size);
#define DH_POISON(p, n) __asan_poison_memory_region((p), (n))
#define DH_UNPOISON(p, n) __asan_unpoison_memory_region((p), (n))
#else
#define DH_POISON(p, n) ((void) 0)
#define DH_UNPOISON(p, n) ((void) 0)
#endif
static char* const DH_BASE = (char*) 0x510000000000ULL;
static const size_t DH_CAP = 24ULL << 30, DH_RZ = 32;
static bool g_dh_on = false; static size_t g_dh_cur = 0, g_dh_mark = 0;
void sim_detheap_enable() {
  if (!g_dh_on) {
    void* p = mmap(DH_BASE, DH_CAP, PROT_READ | PROT_WRITE, MAP_PRIVATE | MAP_ANONYMOUS | MAP_NORESERVE | MAP_FIXED_NOREPLACE, -1, 0);
    if (p != (void*) DH_BASE) { perror("deterministic heap: mmap"); abort(); }
    // not poisoned up front (24 GiB of address space = 3 GiB of shadow): red zones are poisoned per block
  }
  g_dh_on = true;
}
void sim_detheap_mark() { g_dh_mark = g_dh_cur; }
void sim_detheap_reset() {
  if (!g_dh_on) return;
  if (g_dh_cur > g_dh_mark) { size_t lo = (g_dh_mark + 4095) & ~(size_t) 4095; if (g_dh_cur > lo) { DH_UNPOISON(DH_BASE + lo, g_dh_cur - lo); madvise(DH_BASE + lo, g_dh_cur - lo, MADV_DONTNEED); } DH_POISON(DH_BASE + g_dh_mark, g_dh_cur - g_dh_mark); }
  g_dh_cur = g_dh_mark;
  // blocks leaked by the previous run lived in the discarded part: their addresses are about to be handed out again
  pthread_mutex_lock(&g_tab_mu);
  for (auto it = live().begin(); it != live().end();) { if ((char*) it->first >= DH_BASE + g_dh_mark && (char*) it->first < DH_BASE + DH_CAP) it = live().erase(it); else ++it; }
  pthread_mutex_unlock(&g_tab_mu);
}
size_t sim_detheap_used() { return g_dh_cur; }
static bool dh_owns(const void* p) { return g_dh_on && (const char*) p >= DH_BASE && (const char*) p < DH_BASE + DH_CAP; }
static void* dh_alloc(size_t size) {
  size_t user = (size + 15) & ~(size_t) 15; if (user == 0) user = 16;
  pthread_mutex_lock(&g_tab_mu);
  size_t off = g_dh_cur + DH_RZ; size_t end = off + user + DH_RZ;
  if (end > DH_CAP) { pthread_mutex_unlock(&g_tab_mu); errno = ENOMEM; return NULL; }
  g_dh_cur = end;
  pthread_mutex_unlock(&g_tab_mu);
  DH_POISON(DH_BASE + off - DH_RZ, DH_RZ); DH_POISON(DH_BASE + off + user, DH_RZ);
  DH_UNPOISON(DH_BASE + off, size ? size : 1);
  if (user > size) DH_POISON(DH_BASE + off + (size ? size : 1), user - (size ? size : 1));
  return DH_BASE + off;
}
static void* raw_alloc(size_t n) { return g_dh_on ? dh_alloc(n) : malloc(n); }
static void raw_free(void* p, size_t known_size) {
  if (dh_owns(p)) { if (known_size != (size_t) -1) DH_POISON(p, known_size ? known_size : 1); return; }   // never reused within a run: use-after-free traps
  free(p);
}

static bool too_big(size_t size) {
  if (size <= g_alloc.max_block) return false;
  __atomic_add_fetch(&g_alloc.huge_refused, 1, __ATOMIC_SEQ_CST); errno = ENOMEM; return true;
}
static void record(void* p, size_t size, void* fp) {
  if (!g_alloc.track) return;
  SimAllocRec r; r.size = size; r.op = g_alloc.cur_op;
  capture_bt(r.bt, fp);
  pthread_mutex_lock(&g_tab_mu);
  r.seq = ++g_alloc_seq;
  live()[p] = r;
  pthread_mutex_unlock(&g_tab_mu);
}
// returns the recorded size, (size_t)-1 when unknown
static size_t unrecord(void* p) {
  size_t sz = (size_t) -1;
  pthread_mutex_lock(&g_tab_mu);
  auto it = live().find(p);
  if (it != live().end()) { sz = it->second.size; live().erase(it); }
  pthread_mutex_unlock(&g_tab_mu);
  return sz;
}
static void junk_fill(void* p, size_t n) {
  if (g_alloc.junk_by_address && n) { uint8_t* b = (uint8_t*) p; for (size_t i = 0; i < n; i++) { uintptr_t a = (uintptr_t) (b + i); b[i] = (uint8_t) (((a * 0x9E3779B97F4A7C15ULL) >> 29) | 1); } return; }
  if (!g_alloc.junk || !n) return;
  memset(p, g_alloc.junk_byte, n);
}

extern "C" {

void* sim_malloc(size_t size) {
  if (g_sync.yield) g_sync.yield(YK_ALLOC, __builtin_return_address(0));
  if (should_fail(__builtin_frame_address(0))) return NULL;
  if (too_big(size)) return NULL;
  void* p = raw_alloc(size + g_alloc.pad);
  if (!p) return NULL;
  junk_fill(p, size + g_alloc.pad);
  record(p, size, __builtin_frame_address(0));
  return p;
}
void* sim_calloc(size_t n, size_t size) {
  if (g_sync.yield) g_sync.yield(YK_ALLOC, __builtin_return_address(0));
  if (should_fail(__builtin_frame_address(0))) return NULL;
  size_t total;
  if (__builtin_mul_overflow(n, size, &total)) { errno = ENOMEM; return NULL; }
  if (too_big(total)) return NULL;
  void* p = raw_alloc(total + g_alloc.pad);
  if (!p) return NULL;
  memset(p, 0, total);
  if (g_alloc.pad) junk_fill((char*) p + total, g_alloc.pad);
  record(p, total, __builtin_frame_address(0));
  return p;
}
void sim_free(void* p) {
  if (!p) return;
  if (g_sync.yield) g_sync.yield(YK_FREE, __builtin_return_address(0));
  __atomic_add_fetch(&g_alloc.frees, 1, __ATOMIC_SEQ_CST);
  size_t known = g_alloc.track ? unrecord(p) : (size_t) -1;
  if (g_alloc.track && known == (size_t) -1) __atomic_add_fetch(&g_alloc.foreign_frees, 1, __ATOMIC_SEQ_CST);
  raw_free(p, known);
}
void* sim_realloc(void* old, size_t size) {
  if (!old) {
    if (g_sync.yield) g_sync.yield(YK_ALLOC, __builtin_return_address(0));
    if (should_fail(__builtin_frame_address(0))) return NULL;
    if (too_big(size)) return NULL;
    void* p = raw_alloc(size + g_alloc.pad);
    if (!p) return NULL;
    junk_fill(p, size + g_alloc.pad);
    record(p, size, __builtin_frame_address(0));
    return p;
  }
  if (size == 0) { sim_free(old); return NULL; }
  if (g_sync.yield) g_sync.yield(YK_ALLOC, __builtin_return_address(0));
  if (should_fail(__builtin_frame_address(0))) return NULL;   // old block stays valid, as realloc promises
  if (too_big(size)) return NULL;
  size_t oldsz = (size_t) -1;
  if (g_alloc.track) {
    pthread_mutex_lock(&g_tab_mu);
    auto it = live().find(old);
    if (it != live().end()) oldsz = it->second.size;
    pthread_mutex_unlock(&g_tab_mu);
  }
  if ((g_alloc.always_move || g_dh_on || dh_owns(old)) && oldsz != (size_t) -1) {
    void* p = raw_alloc(size + g_alloc.pad);
    if (!p) return NULL;
    junk_fill(p, size + g_alloc.pad);
    memcpy(p, old, oldsz < size ? oldsz : size);
    unrecord(old);
    raw_free(old, oldsz);     // poisoned: any stale pointer into the old block now traps
    record(p, size, __builtin_frame_address(0));
    g_alloc.moves++;
    return p;
  }
  void* p = realloc(old, size + g_alloc.pad);
  if (!p) return NULL;
  if (oldsz != (size_t) -1 && size > oldsz) junk_fill((char*) p + oldsz, size - oldsz + g_alloc.pad);
  if (g_alloc.track) { unrecord(old); record(p, size, __builtin_frame_address(0)); }
  if (p != old) g_alloc.moves++;
  return p;
}
char* sim_strdup(const char* s) {
  if (g_sync.yield) g_sync.yield(YK_ALLOC, __builtin_return_address(0));
  if (should_fail(__builtin_frame_address(0))) return NULL;
  size_t n = strlen(s) + 1;
  char* p = (char*) raw_alloc(n + g_alloc.pad);
  if (!p) return NULL;
  memcpy(p, s, n);
  record(p, n, __builtin_frame_address(0));
  return p;
}
char* sim_strndup(const char* s, size_t max) {
  if (g_sync.yield) g_sync.yield(YK_ALLOC, __builtin_return_address(0));
  if (should_fail(__builtin_frame_address(0))) return NULL;
  size_t n = strnlen(s, max);
  char* p = (char*) raw_alloc(n + 1 + g_alloc.pad);
  if (!p) return NULL;
  memcpy(p, s, n); p[n] = 0;
  record(p, n + 1, __builtin_frame_address(0));
  return p;
}

// ------------------------------------------------------------------ clock ---
int sim_clock_gettime(clockid_t clk, struct timespec* ts) {
  if (!g_clock.simulated) return clock_gettime(clk, ts);
  if (g_sync.yield) g_sync.yield(YK_CLOCK, __builtin_return_address(0));
  if (g_clock.override_fn && g_clock.override_fn((int) clk, ts)) { __atomic_add_fetch(&g_clock.reads, 1, __ATOMIC_SEQ_CST); return 0; }
  int64_t r = __atomic_add_fetch(&g_clock.reads, 1, __ATOMIC_SEQ_CST);
  if (r == g_clock.jump_at_read) g_clock.now_ns += g_clock.jump_ns;
  g_clock.now_ns += g_clock.step_ns;
  if (g_clock.on_read) g_clock.on_read(r);
  int64_t t = g_clock.now_ns;
  if (clk == CLOCK_REALTIME) t += g_clock.epoch0 * 1000000000LL;
  ts->tv_sec = t / 1000000000LL; ts->tv_nsec = t % 1000000000LL;
  return 0;
}
time_t sim_time(time_t* out) {
  time_t t = g_clock.simulated ? (time_t)(g_clock.epoch0 + g_clock.now_ns / 1000000000LL) : time(NULL);
  if (out) *out = t;
  return t;
}
int sim_gettimeofday(struct timeval* tv, void* tz) {
  if (!g_clock.simulated) return gettimeofday(tv, (struct timezone*) tz);
  int64_t t = g_clock.now_ns + g_clock.epoch0 * 1000000000LL;
  tv->tv_sec = t / 1000000000LL; tv->tv_usec = (t % 1000000000LL) / 1000;
  return 0;
}
static uint64_t g_rand_state = 12345;
void sim_rand_seed(uint64_t s) { g_rand_state = s ? s : 12345; }
void sim_srand(unsigned s) { (void) s; /* the run seed, not the wall clock, decides */ }
int sim_rand(void) { g_rand_state = sim_mix64(g_rand_state); return (int) (g_rand_state & 0x7fffffff); }

// ---------------------------------------------------------- sync / signals --
int sim_mutex_lock(pthread_mutex_t* m) { return g_sync.mutex_lock ? g_sync.mutex_lock(m) : pthread_mutex_lock(m); }
int sim_mutex_unlock(pthread_mutex_t* m) { return g_sync.mutex_unlock ? g_sync.mutex_unlock(m) : pthread_mutex_unlock(m); }
int sim_sigaction(int sig, const struct sigaction* act, struct sigaction* old) {
  if (g_sync.yield) g_sync.yield(YK_SIGNAL, __builtin_return_address(0));
  __atomic_add_fetch(&g_sigaction_calls, 1, __ATOMIC_SEQ_CST);
  return sigaction(sig, act, old);
}

// ------------------------------------------------------------------- files --
static std::set<int>* g_fds; static std::set<void*>* g_maps;
static pthread_mutex_t g_fs_mu = PTHREAD_MUTEX_INITIALIZER;
int sim_open(const char* path, int flags, ...) {
  mode_t mode = 0;
  if (flags & O_CREAT) { va_list ap; va_start(ap, flags); mode = va_arg(ap, int); va_end(ap); }
  if (g_sync.yield) g_sync.yield(YK_FILE, __builtin_return_address(0));
  int n = __atomic_add_fetch(&g_fs.opens, 1, __ATOMIC_SEQ_CST);
  if (n == g_fs.fail_open_at) { g_fs.faults_fired++; errno = EMFILE; return -1; }
  // the simulated caller owns none of the files it scans and has no CAP_FOWNER: O_NOATIME is refused (open(2): EPERM)
  if ((flags & O_NOATIME) && !(flags & O_CREAT)) { g_fs.noatime_refused++; errno = EPERM; return -1; }
  int fd = open(path, flags, mode);
  if (fd >= 0) { pthread_mutex_lock(&g_fs_mu); if (!g_fds) g_fds = new std::set<int>(); g_fds->insert(fd); g_fs.open_fds = g_fds->size(); pthread_mutex_unlock(&g_fs_mu); }
  return fd;
}
int sim_close(int fd) {
  if (g_sync.yield) g_sync.yield(YK_FILE, __builtin_return_address(0));
  __atomic_add_fetch(&g_fs.closes, 1, __ATOMIC_SEQ_CST);
  pthread_mutex_lock(&g_fs_mu); bool mine = g_fds && g_fds->erase(fd) > 0; if (g_fds) g_fs.open_fds = g_fds->size(); if (!mine) g_fs.foreign_closes++; pthread_mutex_unlock(&g_fs_mu);
  if (!mine && g_fs.refuse_foreign_close) { errno = EBADF; return -1; }
  return close(fd);
}
int sim_fstat(int fd, struct stat* st) {
  int n = __atomic_add_fetch(&g_fs.fstats, 1, __ATOMIC_SEQ_CST);
  if (n == g_fs.fail_fstat_at) { g_fs.faults_fired++; errno = EIO; return -1; }
  return fstat(fd, st);
}
int sim_fstatfs(int fd, struct statfs* st) {
  int n = __atomic_add_fetch(&g_fs.fstatfss, 1, __ATOMIC_SEQ_CST);
  if (n == g_fs.fail_fstatfs_at) { g_fs.faults_fired++; errno = EIO; return -1; }
  return fstatfs(fd, st);
}
void* sim_mmap(void* addr, size_t len, int prot, int flags, int fd, off_t off) {
  if (g_sync.yield) g_sync.yield(YK_FILE, __builtin_return_address(0));
  int n = __atomic_add_fetch(&g_fs.mmaps, 1, __ATOMIC_SEQ_CST);
  if (n == g_fs.fail_mmap_at || (g_fail_mmap_hook && g_fail_mmap_hook())) { g_fs.faults_fired++; errno = ENOMEM; return MAP_FAILED; }
  void* p = mmap(addr, len, prot, flags, fd, off);
  if (p != MAP_FAILED) { pthread_mutex_lock(&g_fs_mu); if (!g_maps) g_maps = new std::set<void*>(); g_maps->insert(p); g_fs.live_maps = g_maps->size(); pthread_mutex_unlock(&g_fs_mu); if (g_after_mmap) g_after_mmap(); }
  return p;
}
int sim_munmap(void* p, size_t len) {
  if (g_sync.yield) g_sync.yield(YK_FILE, __builtin_return_address(0));
  __atomic_add_fetch(&g_fs.munmaps, 1, __ATOMIC_SEQ_CST);
  pthread_mutex_lock(&g_fs_mu); if (g_maps) { g_maps->erase(p); g_fs.live_maps = g_maps->size(); } pthread_mutex_unlock(&g_fs_mu);
  return munmap(p, len);
}
FILE* sim_fopen(const char* path, const char* mode) { return fopen(path, mode); }
int sim_fclose(FILE* f) { int r = fclose(f); if (g_fs.lost_bytes > 0) { g_fs.lost_bytes = 0; g_fs.faults_fired++; errno = ENOSPC; return EOF; } return g_fs.fclose_fails ? EOF : r; }
size_t sim_fread(void* p, size_t size, size_t n, FILE* f) { return fread(p, size, n, f); }
size_t sim_fwrite(const void* p, size_t size, size_t n, FILE* f) {
  if (g_fs.fwrite_lost_after_bytes >= 0 && size) {   // stdio buffering: the call succeeds, what does not fit is lost, fclose reports it
    int64_t room = g_fs.fwrite_lost_after_bytes - g_fs.fwritten; if (room < 0) room = 0;
    size_t want = size * n, keep = (size_t) room < want ? (size_t) room : want;
    if (keep) fwrite(p, 1, keep, f);
    g_fs.fwritten += keep; g_fs.lost_bytes += want - keep;
    return n;
  }
  if (g_fs.fwrite_fail_after_bytes < 0 || size == 0) { size_t r = fwrite(p, size, n, f); g_fs.fwritten += r * size; return r; }
  int64_t room = g_fs.fwrite_fail_after_bytes - g_fs.fwritten;
  if (room < 0) room = 0;
  size_t whole = (size_t) room / size;
  size_t items = whole < n ? whole : n;
  size_t bytes = items * size;
  // a torn final item: the bytes that still fit reach the disk
  size_t torn = (items < n) ? (size_t) room - bytes : 0;
  if (bytes + torn) fwrite(p, 1, bytes + torn, f);
  g_fs.fwritten += bytes + torn;
  if (items < n) { g_fs.faults_fired++; errno = ENOSPC; }
  return items;
}

int sim_open64(const char*, int, ...) __attribute__((alias("sim_open")));
int sim_fstat64(int, struct stat*) __attribute__((alias("sim_fstat")));
void* sim_mmap64(void*, size_t, int, int, int, off_t) __attribute__((alias("sim_mmap")));
FILE* sim_fopen64(const char*, const char*) __attribute__((alias("sim_fopen")));

// ------------------------------------------------------------------ arena ---
struct YR_ARENA;
int yr_arena_create(uint32_t num_buffers, size_t initial_buffer_size, YR_ARENA** arena);
int sim_arena_create(uint32_t num_buffers, size_t initial_buffer_size, YR_ARENA** arena) {
  g_arena_creates++;
  if (g_arena_initial_size) initial_buffer_size = g_arena_initial_size;
  return yr_arena_create(num_buffers, initial_buffer_size, arena);
}

}  // extern "C"

volatile uint64_t g_bb_count = 0;
void (*g_bb_hook)(const void* pc) = 0;
extern "C" __attribute__((no_sanitize("address", "undefined"))) void __sanitizer_cov_trace_pc() {
  g_bb_count = g_bb_count + 1;
  if (g_bb_hook) g_bb_hook(__builtin_return_address(0));
}

void sim_clock_reset() { g_clock = SimClock(); }
void sim_fs_reset() { g_fs = SimFs(); }

// ------------------------------------------------------------- symbolizer ---
struct Sym { uintptr_t lo, hi; std::string name; };
static std::vector<Sym>* g_syms;
static std::vector<Sym>* g_dsyms;
static void load_syms() {
  g_syms = new std::vector<Sym>(); g_dsyms = new std::vector<Sym>();
  int fd = open("/proc/self/exe", O_RDONLY);
  if (fd < 0) return;
  struct stat st; fstat(fd, &st);
  void* m = mmap(0, st.st_size, PROT_READ, MAP_PRIVATE, fd, 0);
  close(fd);
  if (m == MAP_FAILED) return;
  const char* base = (const char*) m;
  const Elf64_Ehdr* eh = (const Elf64_Ehdr*) base;
  const Elf64_Shdr* sh = (const Elf64_Shdr*) (base + eh->e_shoff);
  for (int i = 0; i < eh->e_shnum; i++) {
    if (sh[i].sh_type != SHT_SYMTAB) continue;
    const Elf64_Sym* s = (const Elf64_Sym*) (base + sh[i].sh_offset);
    size_t n = sh[i].sh_size / sizeof(Elf64_Sym);
    const char* str = base + sh[sh[i].sh_link].sh_offset;
    for (size_t k = 0; k < n; k++)
      if (ELF64_ST_TYPE(s[k].st_info) == STT_FUNC && s[k].st_value)
        g_syms->push_back({(uintptr_t) s[k].st_value, (uintptr_t) s[k].st_value + (s[k].st_size ? s[k].st_size : 1), str + s[k].st_name});
      else if (ELF64_ST_TYPE(s[k].st_info) == STT_OBJECT && s[k].st_value)
        g_dsyms->push_back({(uintptr_t) s[k].st_value, (uintptr_t) s[k].st_value + (s[k].st_size ? s[k].st_size : 1), str + s[k].st_name});
  }
  munmap(m, st.st_size);
  std::sort(g_syms->begin(), g_syms->end(), [](const Sym& a, const Sym& b) { return a.lo < b.lo; });
}
std::string sim_symbolize(void* pc) {
  if (!g_syms) load_syms();
  uintptr_t a = (uintptr_t) pc - 1;   // return address -> inside the call instruction
  size_t lo = 0, hi = g_syms->size();
  while (lo < hi) { size_t mid = (lo + hi) / 2; if ((*g_syms)[mid].lo <= a) lo = mid + 1; else hi = mid; }
  if (lo == 0) return "?";
  const Sym& s = (*g_syms)[lo - 1];
  if (a >= s.hi) return "?";
  std::string n = s.name;
  // gcc clones: foo.part.0, foo.constprop.1, foo.isra.2 -> foo
  size_t dot = n.find('.');
  if (dot != std::string::npos) n.resize(dot);
  return n;
}
std::string sim_symbolize_data(const void* addr) {
  if (!g_syms) load_syms();
  uintptr_t a = (uintptr_t) addr;
  for (auto& s : *g_dsyms) if (a >= s.lo && a < s.hi) { std::string n = s.name; size_t dot = n.find('.'); if (dot != std::string::npos && dot > 0) n.resize(dot); return n + (a > s.lo ? "+" + std::to_string(a - s.lo) : ""); }
  return "?";
}
std::string sim_bt_chain(void* const* bt, int skip_sim, int want) {
  std::string out; int got = 0;
  for (int i = 0; i < SIM_BT_DEPTH && bt[i] && got < want; i++) {
    std::string n = sim_symbolize(bt[i]);
    if (skip_sim && (n.rfind("sim_", 0) == 0 || n == "yr_malloc" || n == "yr_calloc" || n == "yr_realloc" || n == "yr_strdup" || n == "yr_strndup")) continue;
    if (n == "?" ) continue;
    if (got) out += "<-";
    out += n; got++;
  }
  return out.empty() ? "?" : out;
}

// --------------------------------------------------------------- isolation --
static int g_iso_fd = -1;
void iso_emit(const std::string& s) {
  if (g_iso_fd < 0) { fwrite(s.data(), 1, s.size(), stdout); return; }
  size_t off = 0;
  while (off < s.size()) { ssize_t w = write(g_iso_fd, s.data() + off, s.size() - off); if (w <= 0) break; off += w; }
}
IsoResult sim_isolate(const std::function<void()>& fn, int timeout_s) {
  IsoResult r; r.kind = 4; r.code = -1;
  int po[2], pe[2];
  if (pipe(po) || pipe(pe)) { r.err = "pipe failed"; return r; }
  fflush(stdout); fflush(stderr);
  pid_t pid = fork();
  if (pid == 0) {
    close(po[0]); close(pe[0]);
    dup2(pe[1], 2); close(pe[1]);
    g_iso_fd = po[1];
    fn();
    fflush(stderr);
    iso_emit("\x02" "DONE\n");     // explicit completion marker: recoverable UBSan reports may change the exit code
    SIM_GCOV_DUMP();
    _exit(0);
  }
  close(po[1]); close(pe[1]);
  struct pollfd pf[2] = {{po[0], POLLIN, 0}, {pe[0], POLLIN, 0}};
  int open_n = 2; bool timed_out = false;
  struct timespec t0; clock_gettime(CLOCK_MONOTONIC, &t0);
  char buf[65536];
  while (open_n > 0) {
    struct timespec t1; clock_gettime(CLOCK_MONOTONIC, &t1);
    int left = timeout_s * 1000 - (int) ((t1.tv_sec - t0.tv_sec) * 1000 + (t1.tv_nsec - t0.tv_nsec) / 1000000);
    if (left <= 0) { timed_out = true; break; }
    int pr = poll(pf, 2, left);
    if (pr < 0) { if (errno == EINTR) continue; break; }
    if (pr == 0) { timed_out = true; break; }
    for (int i = 0; i < 2; i++) {
      if (pf[i].fd < 0 || !(pf[i].revents & (POLLIN | POLLHUP | POLLERR))) continue;
      ssize_t n = read(pf[i].fd, buf, sizeof buf);
      if (n > 0) { std::string& dst = i == 0 ? r.out : r.err; if (dst.size() < (i == 0 ? (64u << 20) : (256u << 10))) dst.append(buf, n); }
      else { close(pf[i].fd); pf[i].fd = -1; open_n--; }
    }
  }
  if (timed_out) kill(pid, SIGKILL);
  for (int i = 0; i < 2; i++) if (pf[i].fd >= 0) close(pf[i].fd);
  int st = 0; waitpid(pid, &st, 0);
  bool done = false;
  { size_t m = r.out.rfind("\x02" "DONE\n"); if (m != std::string::npos && m + 6 == r.out.size()) { done = true; r.out.resize(m); } }
  if (timed_out) { r.kind = 3; r.code = 0; }
  else if (done && !WIFSIGNALED(st)) { r.kind = 0; r.code = 0; return r; }
  else if (WIFSIGNALED(st)) { r.kind = 2; r.code = WTERMSIG(st); }
  else if (WIFEXITED(st)) { r.code = WEXITSTATUS(st); r.kind = r.code == 0 ? 0 : (r.code == 77 ? 1 : 4); }
  if (r.kind != 0 && r.kind != 3 && (r.err.find("ERROR: AddressSanitizer") != std::string::npos || r.err.find("runtime error:") != std::string::npos)) r.kind = 1;
  return r;
}

// "asan:heap-use-after-free@f1<-f2<-f3", "assert:found@yr_arena_save_stream", "signal:11", "timeout"
std::string sim_crash_signature(const IsoResult& r) {
  auto frames = [&](int want) {
    std::string out; int got = 0; size_t pos = 0;
    while (got < want && (pos = r.err.find(" in ", pos)) != std::string::npos) {
      size_t ls = r.err.rfind('\n', pos); ls = ls == std::string::npos ? 0 : ls + 1;
      size_t h = r.err.find('#', ls);
      pos += 4;
      if (h == std::string::npos || h > pos) continue;
      size_t e = r.err.find_first_of(" \n", pos);
      std::string fn = r.err.substr(pos, e - pos);
      if (fn.rfind("__", 0) == 0 || fn.rfind("sim_", 0) == 0 || fn == "yr_free" || fn == "free" || fn == "malloc") continue;
      size_t dot = fn.find('.'); if (dot != std::string::npos) fn.resize(dot);
      if (got) out += "<-";
      out += fn; got++;
    }
    return out;
  };
  if (r.kind == 3) return "timeout";
  size_t a = r.err.find("Assertion `");
  if (a != std::string::npos) {
    size_t e = r.err.find('\'', a + 11);
    std::string expr = r.err.substr(a + 11, e - a - 11);
    size_t ls = r.err.rfind('\n', a); ls = ls == std::string::npos ? 0 : ls + 1;
    std::string line = r.err.substr(ls, a - ls);   // "prog: file:line: func: "
    std::string func = "?";
    size_t c2 = line.rfind(": ");
    if (c2 != std::string::npos) { size_t c1 = line.rfind(": ", c2 - 1); if (c1 != std::string::npos) func = line.substr(c1 + 2, c2 - c1 - 2); }
    return "assert:" + expr + "@" + func;
  }
  size_t s = r.err.find("ERROR: AddressSanitizer: ");
  if (s != std::string::npos) {
    size_t b = s + 25; size_t e = r.err.find_first_of(" \n", b);
    return "asan:" + r.err.substr(b, e - b) + "@" + frames(3);
  }
  s = r.err.find("runtime error: ");
  if (s != std::string::npos) {
    size_t b = s + 15; size_t e = r.err.find('\n', b);
    std::string msg = r.err.substr(b, e - b);
    // keep the first three words, numbers vary
    int sp = 0; size_t i = 0; for (; i < msg.size() && sp < 3; i++) if (msg[i] == ' ') sp++;
    msg.resize(i); while (!msg.empty() && msg.back() == ' ') msg.pop_back();
    return "ubsan:" + msg + "@" + frames(2);
  }
  if (r.kind == 2) return "signal:" + std::to_string(r.code);
  return "exit:" + std::to_string(r.code);
}

extern "C" __attribute__((used, noinline)) const char* __asan_default_options() {
  return "exitcode=77:detect_leaks=0:abort_on_error=0:allocator_may_return_null=1:handle_abort=0:print_summary=0:detect_odr_violation=0:fast_unwind_on_malloc=1:malloc_context_size=2";
}
extern "C" __attribute__((used, noinline)) const char* __ubsan_default_options() { return "print_stacktrace=1"; }
