// yara-facing helpers shared by engines: canonical scan trace recorder
// (DESIGN.md §3 "Trace"), compile helper, streams, buffer corpus.
#pragma once
#include "sim.h"
#include "json.h"
#include <set>
extern "C" {
#include <yara.h>
}

// ------------------------------------------------------------------ trace ---
struct Recorder {
  std::string text;              // canonical trace, one line per message
  std::vector<int> kinds;        // message kind per index
  int nmsgs = 0;
  // reply plan: at message index reply_at (0-based, counted over all messages)
  // answer reply_code; otherwise CONTINUE.
  int reply_at = -1;
  int reply_code = CALLBACK_CONTINUE;
  int too_many_reply = CALLBACK_CONTINUE;   // reply to TOO_MANY_MATCHES warnings
  bool with_module_tree = true;   // include a walk of the module object in IMPORTED lines
  bool with_match_data = true;
  bool skip_too_slow = true;      // TOO_SLOW_SCANNING is an advisory, not part of equality oracles
  int too_slow_reply = CALLBACK_CONTINUE;   // reply to it when skipped
  int too_slow = 0, too_many = 0;
  std::function<int(Recorder&, YR_SCAN_CONTEXT*, int, void*)> hook;   // may override the reply (return -1: no override)
  const void* module_data = nullptr; size_t module_data_size = 0; std::string module_data_for;  // handed over at IMPORT_MODULE
  void clear() { text.clear(); kinds.clear(); nmsgs = 0; too_slow = too_many = 0; }
};
int recorder_callback(YR_SCAN_CONTEXT* ctx, int msg, void* data, void* user);
const char* msg_name(int msg);
std::string object_tree(YR_OBJECT* o);     // canonical text of a module object tree
const char* yr_error_name(int code);

// ---------------------------------------------------------------- compile ---
struct ExtDef { std::string id; int type; int64_t i; double f; std::string s; };   // type: 'i','b','f','s'
struct CompileSpec {
  std::vector<std::pair<std::string, std::string>> sources;   // (namespace or "", source text)
  std::vector<ExtDef> externals;
  std::map<std::string, std::string> includes;                // include name -> content
};
struct CompileResult { int errors = 0; int rc = 0; std::string messages; YR_RULES* rules = nullptr; };
// yr_compiler_create + defines + add_string each + get_rules; destroys the compiler.
CompileResult compile_rules(const CompileSpec& spec);
extern uint8_t g_stack_junk;     // compile_rules() fills a stretch of stack below its API calls with this byte first (0 = off)
YR_RULES* compile_simple(const std::string& src);    // aborts the process on failure (harness bug)

// ---------------------------------------------------------------- streams ---
struct MemStream {
  std::string data; size_t pos = 0;
  int64_t fail_write_after_items = -1;  // n-th write call (0-based count of successful calls) fails
  int64_t fail_write_once_at = -1;      // transient fault: only the write call with this 0-based index fails, later calls succeed again
  int64_t write_calls = 0;
  int64_t writes = 0, reads = 0;
  size_t max_chunk = 0;                 // simulated disk delivers at most this many bytes per low-level read (0: unlimited)
  YR_STREAM stream();
};
bool save_rules(YR_RULES* r, std::string& out, int* rc = nullptr);
int load_rules(const std::string& image, YR_RULES** out, size_t max_chunk = 0);

// Poison (ASan) the unused tail [used, size) of every arena buffer of a rule
// set, so that any read past the logical end of a section traps at once
// instead of silently seeing whatever the allocator left there.  No-op
// without ASan.  Must be undone before the rules are destroyed.
void poison_slack(YR_RULES* r, bool on);

// ----------------------------------------------------------------- corpus ---
std::string read_file(const std::string& path, bool* ok = nullptr);
bool write_file(const std::string& path, const std::string& data);
std::string repo_root();                                 // $REPO or /repo
std::string corpus_file(const std::string& rel);         // contents of $REPO/tests/data/<rel> (cached)
std::string tmp_dir();                                   // per-process scratch dir (removed at exit by the driver)

// ------------------------------------------------------------- result i/o ---
void emit_line(const J& j);       // one JSON line on stdout, flushed
struct Args { std::map<std::string, std::string> kv; std::vector<std::string> pos;
  Args(int argc, char** argv);
  std::string get(const std::string& k, const std::string& def = "") const { auto it = kv.find(k); return it == kv.end() ? def : it->second; }
  int64_t num(const std::string& k, int64_t def) const { auto it = kv.find(k); return it == kv.end() ? def : strtoll(it->second.c_str(), 0, 10); }
  bool has(const std::string& k) const { return kv.count(k) > 0; } };

// ------------------------------------------------------- block iterator -----
// Position-based iterator over a partition of a buffer, with a not-ready plan.
// Resume contract (DESIGN.md §5.C13): first() rewinds; a call that answered
// not-ready leaves its block pending; the next next() delivers the pending block.
struct BlockIter {
  const uint8_t* data = nullptr; size_t size = 0;
  std::vector<std::pair<size_t, size_t>> blocks;     // (offset, length)
  std::vector<YR_MEMORY_BLOCK> mb;
  struct Ctx { BlockIter* it; int idx; };
  std::vector<Ctx> ctx;
  int pos = -1; int pending = -1;
  int64_t calls = 0;                   // first()/next() calls so far (0-based index of the next call)
  std::set<int64_t> not_ready_at;      // call indices answering ERROR_BLOCK_NOT_READY
  std::set<int> fetch_null;            // blocks whose data cannot be fetched
  std::map<int, int> nr_target;        // first pass: answer not-ready this many times when block <target> (size() = end) is asked for
  std::set<int64_t> reiter_nr;         // after the first pass: not-ready at these call ordinals (re-iteration by rule evaluation)
  int passes = 0; int64_t reiter_calls = 0;
  bool report_size = true;
  int64_t not_ready_fired = 0, fetches = 0, firsts = 0, nexts = 0;
  std::function<void(BlockIter&, int64_t, bool)> on_call;   // (iter, call index, is_first)
  YR_MEMORY_BLOCK_ITERATOR it;
  void init(const void* d, size_t n, const std::vector<std::pair<size_t, size_t>>& parts);
  void init_single(const void* d, size_t n) { init(d, n, {{0, n}}); }
};
