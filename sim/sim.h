// Simulated environment for yara (DESIGN.md §2.2).  yara's object code reaches
// these through objcopy-redirected symbols; the harness itself keeps libc.
#pragma once
#ifdef VERIF_GCOV
extern "C" void __gcov_dump(void);   // reach measurement build (tools/reach.sh): flush counters before _exit in forked children
#define SIM_GCOV_DUMP() __gcov_dump()
#else
#define SIM_GCOV_DUMP() ((void) 0)
#endif
#include <stdint.h>
#include <stddef.h>
#include <string>
#include <vector>
#include <map>
#include <functional>

// ---------------------------------------------------------------- rng -------
static inline uint64_t sim_mix64(uint64_t z) {
  z += 0x9e3779b97f4a7c15ULL;
  z = (z ^ (z >> 30)) * 0xbf58476d1ce4e5b9ULL;
  z = (z ^ (z >> 27)) * 0x94d049bb133111ebULL;
  return z ^ (z >> 31);
}
struct Rng {
  uint64_t s;
  explicit Rng(uint64_t seed = 1) : s(seed) {}
  uint64_t next() { s += 0x9e3779b97f4a7c15ULL; uint64_t z = s;
    z = (z ^ (z >> 30)) * 0xbf58476d1ce4e5b9ULL; z = (z ^ (z >> 27)) * 0x94d049bb133111ebULL; return z ^ (z >> 31); }
  // uniform in [0,n)
  uint64_t below(uint64_t n) { return n ? next() % n : 0; }
  // uniform in [a,b]
  int64_t range(int64_t a, int64_t b) { return a + (int64_t) below((uint64_t)(b - a + 1)); }
  bool chance(int num, int den) { return (int) below(den) < num; }
  Rng split(uint64_t tag) { return Rng(sim_mix64(s ^ sim_mix64(tag))); }
  template <class T> const T& pick(const std::vector<T>& v) { return v[below(v.size())]; }
};
static inline uint64_t sim_run_seed(uint64_t verif_seed, uint64_t run) { return sim_mix64(sim_mix64(verif_seed) ^ (run * 0x9e3779b97f4a7c15ULL + 1)); }

// fnv-1a, for event-log hashes
struct Hash64 { uint64_t h = 1469598103934665603ULL;
  void add(const void* p, size_t n) { const unsigned char* c = (const unsigned char*) p; for (size_t i = 0; i < n; i++) { h ^= c[i]; h *= 1099511628211ULL; } }
  void add(const std::string& s) { add(s.data(), s.size()); unsigned char z = 0; add(&z, 1); }
  void addu(uint64_t v) { add(&v, 8); } };

// -------------------------------------------------------------- allocator ---
#define SIM_BT_DEPTH 8
struct SimAllocRec { size_t size; uint64_t seq; int op; void* bt[SIM_BT_DEPTH]; };
struct SimAlloc {
  // configuration
  int64_t fail_at = -1;      // 1-based index of the allocation attempt that fails (-1: none)
  bool fail_from = false;    // also fail every later attempt
  bool junk = true;          // fill fresh memory with junk_byte-derived pattern
  uint8_t junk_byte = 0xA5;
  bool junk_by_address = false;   // junk bytes are a function of their address (with the deterministic heap: of the allocation history), so that two
                                  // executions that read uninitialised memory do not agree by accident; implies junk
  bool always_move = false;  // realloc always moves
  size_t pad = 0;            // extra bytes per allocation (address layout perturbation)
  bool track = true;         // keep the live table
  size_t max_block = 256u << 20;  // the simulated machine refuses larger single requests (deterministic, not an injected fault)
  int64_t huge_refused = 0;
  int cur_op = 0;            // operation id stamped on allocations (set by the harness)
  // counters
  int64_t attempts = 0;      // allocation attempts by yara code since reset
  int64_t failed = 0;        // injected failures
  int64_t frees = 0, foreign_frees = 0, moves = 0;
  void* fail_bt[SIM_BT_DEPTH] = {0};   // call chain of the first injected failure
  int64_t first_failed_attempt = -1;
  void (*on_first_fail)() = nullptr;   // called once, right after the first injected failure is decided
};
extern SimAlloc g_alloc;
void sim_alloc_reset();                       // counters + config to defaults; live table kept
size_t sim_alloc_live_count();
std::vector<SimAllocRec> sim_alloc_live();    // snapshot of live yara allocations
void sim_alloc_forget_all();                  // drop the live table (does not free)
// Deterministic heap for yara's allocations (threaded engines): a bump allocator in a region mapped at a fixed
// address, never reusing memory within a run.  Heap addresses then depend only on the allocation sequence of the
// run - not on ASLR nor on what the process did before - which matters because yara compares pointers
// (yr_arena_ptr_to_ref walks buffers by address range), i.e. addresses decide how many basic blocks execute.
// Red zones and freed blocks are ASan-poisoned by hand.
void sim_detheap_enable();          // map the region (once), switch sim_malloc & co. over to it
void sim_detheap_mark();            // allocations so far are long-lived (shared rule sets)
void sim_detheap_reset();           // start of a run: everything after the mark is discarded
size_t sim_detheap_used();
std::string sim_symbolize(void* pc);          // function name from own ELF symtab ("?" if none)
std::string sim_symbolize_data(const void* addr);   // "symbol+off" for an address inside a data object
std::string sim_bt_chain(void* const* bt, int skip_sim, int want); // "f1<-f2<-f3" of yara frames

// ------------------------------------------------------------------ clock ---
struct SimClock {
  bool simulated = true;
  int64_t now_ns = 1000000000LL;       // monotonic
  int64_t epoch0 = 1700000000;         // wall clock at now_ns == 0
  int64_t step_ns = 0;                 // advance per read
  int64_t reads = 0;                   // number of clock reads so far (monotonic + wall)
  int64_t jump_at_read = -1;           // at this read (1-based) jump by jump_ns first
  int64_t jump_ns = 0;
  std::function<void(int64_t)> on_read;  // called at every monotonic read with the read index
  std::function<bool(int, struct timespec*)> override_fn;   // per-task clocks (threaded engines); true = handled
};
extern SimClock g_clock;
void sim_clock_reset();
extern "C" void sim_rand_seed(uint64_t s);   // the rand() yara sees (scanner canaries) restarts from the run seed

// ------------------------------------------------------------------- files --
struct SimFs {
  // fault plan: fail the n-th call (1-based) of a given kind with errno
  int fail_open_at = -1, fail_fstat_at = -1, fail_mmap_at = -1, fail_fstatfs_at = -1;
  int opens = 0, fstats = 0, mmaps = 0, fstatfss = 0, closes = 0, munmaps = 0;
  int open_fds = 0, live_maps = 0;       // ledgers (only objects created through the seam)
  int foreign_closes = 0;                // close() of a descriptor that was not opened through the seam (not yara's to close)
  int faults_fired = 0;
  // FILE* layer (rules save/load by path)
  int64_t fwrite_fail_after_bytes = -1;  // disk full: bytes accepted before short writes start
  int64_t fwrite_lost_after_bytes = -1;  // buffered writer on a full disk: fwrite keeps reporting success, bytes beyond this are lost, the error surfaces at fclose
  int64_t lost_bytes = 0;
  int64_t noatime_refused = 0;           // opens refused because they asked for O_NOATIME on a file the caller does not own
  int64_t fwritten = 0;
  bool fclose_fails = false;
  bool refuse_foreign_close = false;     // do not really close descriptors yara does not own (keeps the harness's files intact)
};
extern SimFs g_fs;
extern bool (*g_fail_mmap_hook)();   // per-thread decision: make this mmap fail
extern void (*g_after_mmap)();      // called right after a successful mmap made by yara code
void sim_fs_reset();

// ------------------------------------------------------------------ arena ---
extern size_t g_arena_initial_size;     // 0: leave the compiler's constant alone
extern int64_t g_arena_creates;

// ---------------------------------------------------------- sync / signals --
// Hooks installed by the scheduler (sched.cc); pass-through when null.
struct SimSyncHooks {
  int (*mutex_lock)(void* m);
  int (*mutex_unlock)(void* m);
  void (*yield)(int kind, const void* site);
};
extern SimSyncHooks g_sync;
extern int64_t g_sigaction_calls;
enum { YK_ALLOC = 1, YK_FREE, YK_CLOCK, YK_MUTEX, YK_SIGNAL, YK_FILE, YK_CALLBACK, YK_ITER, YK_BB, YK_PRINT, YK_SEM, YK_THREAD, YK_DIR };

// ------------------------------------------------- basic-block work counter --
// Incremented at the head of every basic block of the yara translation units
// compiled with -fsanitize-coverage=trace-pc (variant `cov`): the unit of work
// for timeliness oracles, and a yield point for the thread scheduler.
extern volatile uint64_t g_bb_count;
extern void (*g_bb_hook)(const void* pc);

// --------------------------------------------------------------- isolation --
struct IsoResult {
  int kind;              // 0 = exited normally (code 0), 1 = sanitizer report, 2 = signal, 3 = timeout, 4 = other exit code
  int code;              // exit code or signal number
  std::string out;       // what the child wrote to the result pipe
  std::string err;       // captured stderr (truncated)
};
// Runs fn in a forked child; fn writes its result with iso_emit().
IsoResult sim_isolate(const std::function<void()>& fn, int timeout_s = 60);
void iso_emit(const std::string& s);
std::string sim_crash_signature(const IsoResult& r);  // short, line-number free

extern "C" const char* __asan_default_options();
