// RuleLab (DESIGN.md §3): catalogue of rule fragments tagged by feature, each
// knowing which bytes to plant for it to match, plus generators for rule sets
// and buffers.  Generation is workload, not the deciding step.
#pragma once
#include "sim.h"
#include <string>
#include <vector>

struct Frag {
  const char* name;
  const char* import;     // module to import or ""
  const char* strings;    // body of the strings: section or ""
  const char* cond;       // condition
  const char* plant;      // bytes that make the rule match when present (C escapes allowed, see unescape); "" if not plantable
  const char* tags;       // feature tags, space separated
};

// clang-format off
static const Frag FRAGS[] = {
 {"text",      "", "$a = \"alpha_text\"",                              "$a",                          "alpha_text", "text"},
 {"wide",      "", "$a = \"widestr\" wide",                            "$a",                          "w\\0i\\0d\\0e\\0s\\0t\\0r\\0", "wide"},
 {"widescii",  "", "$a = \"bothways\" wide ascii",                     "#a >= 1",                     "bothways", "wide ascii"},
 {"nocase",    "", "$a = \"NoCaseStr\" nocase",                        "$a",                          "nocasestr", "nocase"},
 {"xor",       "", "$a = \"xorsecret\" xor(1-255)",                    "$a",                          "\\x22\\x35\\x28\\x29\\x3f\\x39\\x28\\x3f\\x2e", "xor"},   // key 0x5a
 {"base64",    "", "$a = \"base64payload\" base64",                    "$a",                          "YmFzZTY0cGF5bG9hZA", "base64"},
 {"fullword",  "", "$a = \"fullw\" fullword",                          "$a",                          " fullw ", "fullword"},
 {"privstr",   "", "$a = \"privstr\" private\n    $b = \"pubstr\"",    "$a and $b",                   "privstr pubstr", "private_string"},
 {"hexjump",   "", "$a = { 11 22 [2-4] 33 44 }",                       "$a",                          "\\x11\\x22\\x00\\x00\\x00\\x33\\x44", "hex jump"},
 {"hexchain",  "", "$a = { AA BB CC DD [300-400] EE FF 99 88 }",       "$a",                          "\\xaa\\xbb\\xcc\\xdd@Z350@\\xee\\xff\\x99\\x88", "hex chained"},
 {"hexchain3", "", "$a = { A1 B2 C3 D4 [300-400] E5 F6 97 86 [250-350] 15 26 37 48 }", "$a",                     "\\xa1\\xb2\\xc3\\xd4@Z350@\\xe5\\xf6\\x97\\x86@Z300@\\x15\\x26\\x37\\x48", "hex chained three_fragments"},
 {"hexalt",    "", "$a = { 4D 5A ?? ( 90 | 91 92 ) ?0 }",              "$a",                          "\\x4d\\x5a\\x07\\x91\\x92\\x30", "hex alt wildcard"},
 {"hexneg",    "", "$a = { C7 ~00 C8 [1-] C9 CA }",                    "$a",                          "\\xc7\\x01\\xc8\\x05\\x05\\xc9\\xca", "hex negation unbounded"},
 {"regreedy",  "", "$a = /reg[0-9]{2,5}ex+/",                          "$a",                          "reg123exxx", "regex greedy"},
 {"relazy",    "", "$a = /lazy.{1,20}?end/",                           "$a",                          "lazy....end...end", "regex lazy"},
 {"rewide",    "", "$a = /wre[a-z]+z/ nocase wide",                    "$a",                          "W\\0R\\0E\\0a\\0b\\0z\\0", "regex wide nocase"},
 {"reatomless","", "$a = /[0-9]{4}[a-z]{2}/",                           "$a",                          "..2024ab..", "regex atomless"},
 {"hexatomless","", "$a = { ?? ?? 4? ?1 ?? }",                         "#a >= 0",                     "", "hex atomless"},
 {"realt",     "", "$a = /(foo|bar)baz(qux)?\\d/",                     "$a",                          "barbazqux7", "regex alt"},
 {"matches",   "", "",                                                 "\"abbbc\" matches /ab+c$/ and not \"abd\" matches /^ab+c/", "", "matches_op"},
 {"strops",    "", "",                                                 "\"foobar\" contains \"oba\" and \"FooBar\" icontains \"OBA\" and \"foo\" startswith \"fo\" and \"foo\" iequals \"FOO\"", "", "string_ops"},
 {"count",     "", "$a = \"cnt!\"",                                    "#a == 3 and @a[2] > @a[1] and !a[1] == 4", "cnt!..cnt!..cnt!", "count offset length"},
 {"atzero",    "", "$a = \"HEAD\"",                                    "$a at 0",                     "", "at"},
 {"inrange",   "", "$a = \"inrng\"",                                   "$a in (0..filesize)",         "inrng", "in"},
 {"ofset",     "", "$a1 = \"of_one\"\n    $a2 = \"of_two\"\n    $b = \"of_three\"", "2 of ($a1,$a2,$b) and any of ($a*)", "of_one of_three", "of"},
 {"allof",     "", "$a = \"all_1\"\n    $b = \"all_2\"",               "all of them",                 "all_1all_2", "of"},
 {"noneof",    "", "$a = \"never_present_1\"\n    $b = \"never_present_2\"", "none of them",          "", "of none"},
 {"forof",     "", "$a = \"fo1\"\n    $b = \"fo2\"",                   "for any of them : ( # > 1 )", "fo2 fo2", "for_of"},
 {"forin",     "", "$a = \"fi!\"",                                     "for all i in (1..#a) : ( @a[i] < filesize ) and #a > 0", "fi!fi!", "for_in"},
 {"forrange",  "", "",                                                 "for any i in (0..filesize-1) : ( uint8(i) == 0x7f and uint8(i+1) == 0x7e )", "\\x7f\\x7e", "for_in uint loop"},
 {"nested",    "", "",                                                 "for any i in (0..3) : ( for any j in (0..3) : ( i * 4 + j == 15 ) )", "", "for_in nested"},
 {"filesize",  "", "",                                                 "filesize > 10",               "", "filesize"},
 {"entryp",    "", "",                                                 "entrypoint >= 0",             "", "entrypoint"},
 {"uints",     "", "",                                                 "uint16(0) == 0x5a4d or uint32be(0) == 0x7f454c46 or int8(0) == 0x23", "", "uint"},
 {"notstr",    "", "$a = \"absent_marker_xyz\"",                       "not $a",                      "", "not"},
 {"zerocount", "", "$a = \"absent_marker_xyz\"\n    $b = \"alpha_text\"", "#a == 0 and $b",          "alpha_text", "count not"},
 {"arith",     "", "",                                                 "(7 * 6) % 5 == 2 and (1 << 4) | 3 == 19 and -3 \\ 2 == -1 and 2.5 * 2 == 5.0", "", "arith"},
 {"countin",   "", "$a = \"cin!\"",                                    "#a in (0..filesize) == 2 and #a in (0..3) <= 1", "..cin!..cin!", "count_in"},
 {"ofin",      "", "$a = \"ofin_1\"\n    $b = \"ofin_2\"",              "1 of them in (0..filesize) and all of them in (0..filesize)", "ofin_1ofin_2", "of_in"},
 {"ofat",      "", "$a = \"ofat_x\"\n    $b = \"ofat_never\"",          "#a > 0 and any of them at @a[1] and not all of them at @a[1]", "ofat_x", "of_at"},
 {"pctof",     "", "$a = \"pct_1\"\n    $b = \"pct_2\"\n    $c = \"pct_never_3\"\n    $d = \"pct_never_4\"", "50% of them and not 75% of them", "pct_1 pct_2", "of percent"},
 {"forofat",   "", "$a = \"foa_1\"\n    $b = \"foa_2\"",                "for all of them : ( $ in (0..filesize) and # >= 1 and @ >= 0 )", "foa_1foa_2", "for_of in"},
 {"intenum",   "", "",                                                 "for any i in (3, 5, filesize) : ( i == filesize ) and for all i in (1, 2) : ( i < 3 ) and for 2 i in (1..4) : ( i % 2 == 0 )", "", "for_in enum"},
 {"bitops",    "", "",                                                 "(filesize ^ filesize) == 0 and (~filesize) & 1 == 1 - (filesize & 1) and (filesize >> 1) <= filesize and (filesize << 1) >= filesize and (filesize | 1) >= 1", "", "bitwise"},
 {"dblops",    "", "",                                                 "(filesize + 0.5) > filesize and (filesize + 0.5) <= filesize + 1 and filesize \\ 2.0 != filesize + 1.0 and (filesize + 0.5) - 0.5 == filesize and (filesize * 1.0) >= 0.0 and -(filesize + 0.5) < 0.0", "", "double"},
 {"strcmp",    "", "",                                                 "\"abc\" < \"abd\" and \"abc\" <= \"abc\" and \"b\" > \"a\" and \"b\" >= \"b\" and \"FooBar\" istartswith \"foo\" and \"foobar\" endswith \"bar\" and \"FooBar\" iendswith \"BAR\" and \"a\" != \"b\"", "", "string_cmp"},
 {"uintsmore", "", "",                                                 "(uint32(0) >= 0 and int16(0) != 0x7fff1 and uint16be(1) >= 0 and int32be(0) == int32be(0) and uint8(0) <= 255) or not defined uint32(filesize)", "", "uint more"},
 {"widenocase","", "$a = \"WiNoCa\" wide nocase",                      "$a",                          "w\\0i\\0n\\0o\\0c\\0a\\0", "wide nocase"},
 {"xorwide",   "", "$a = \"xwsecret\" xor(1-255) wide",                "$a",                          "\\x22Z\\x2dZ\\x29Z\\x3fZ\\x39Z\\x28Z\\x3fZ\\x2eZ", "xor wide"},
 {"fullwide",  "", "$a = \"fwide\" fullword wide",                     "$a",                          " \\0f\\0w\\0i\\0d\\0e\\0 \\0", "fullword wide"},
 {"definedop", "", "",                                                 "defined filesize and not defined uint8(filesize + 10) and (defined uint8(0) or filesize == 0)", "", "defined"},
 {"pe",        "pe", "",                                               "pe.number_of_sections > 0 and pe.sections[0].name != \"\"", "", "module pe"},
 {"pefunc",    "pe", "",                                               "pe.is_pe and (pe.imphash() != \"\" or pe.exports(\"x\") or true)", "", "module pe func"},
 {"pesig",     "pe", "",                                               "pe.number_of_signatures >= 0 and for all i in (0..pe.number_of_signatures) : ( i >= 0 )", "", "module pe sig"},
 {"perich",    "pe", "",                                               "pe.rich_signature.length >= 0 or not defined pe.rich_signature.length", "", "module pe"},
 {"elf",       "elf", "",                                              "elf.type == elf.ET_EXEC or elf.type == elf.ET_DYN", "", "module elf"},
 {"elfsec",    "elf", "",                                              "for any i in (0..elf.number_of_sections-1) : ( elf.sections[i].name == \".text\" )", "", "module elf loop"},
 {"dotnet",    "dotnet", "",                                           "dotnet.is_dotnet and dotnet.version != \"\"", "", "module dotnet"},
 {"macho",     "macho", "",                                            "defined macho.cputype or defined macho.fat_magic", "", "module macho"},
 {"dex",       "dex", "",                                              "dex.header.magic == \"dex\\n\" or defined dex.header.file_size", "", "module dex"},
 {"math",      "math", "",                                             "math.entropy(0, filesize) >= 0.0 and math.max(3, 4) == 4 and math.in_range(2.0, 1.0, 3.0)", "", "module math"},
 {"hash",      "hash", "",                                             "hash.md5(0, filesize) != \"\" and hash.sha256(\"abc\") == \"ba7816bf8f01cfea414140de5dae2223b00361a396177a9cb410ff61f20015ad\" and hash.crc32(0, filesize) >= 0", "", "module hash"},
 {"hashtwice", "hash", "",                                             "hash.md5(0, filesize) == hash.md5(0, filesize) and hash.sha1(0, 3) != hash.sha1(1, 3)", "", "module hash cache"},
 {"string",    "string", "",                                           "string.to_int(\"10\") == 10 and string.length(\"abc\") == 3", "", "module string"},
 {"time",      "time", "",                                             "time.now() > 0",              "", "module time"},
 {"console",   "console", "",                                          "console.log(\"hello from rule\") and console.hex(\"fs=\", filesize)", "", "module console"},
 {"tests",     "tests", "",                                            "tests.isum(1, 2) == 3 and tests.struct_array[1].i == 1 and tests.string_dict[\"foo\"] == \"foo\"", "", "module tests"},
 {"testsdata", "tests", "",                                            "tests.module_data == \"mdata\" or not defined tests.module_data", "", "module tests module_data"},
 {"testsiter", "tests", "",                                            "for any k, v in tests.struct_dict : ( k == \"foo\" and v.s == \"foo\" ) and for any e in tests.integer_array : ( e == 2 )", "", "module tests for_in dict"},
};
// clang-format on
static const int NFRAGS = sizeof(FRAGS) / sizeof(FRAGS[0]);

// "\\xNN", "\\0", "\\n", and "@Z<n>@" (n zero bytes)
static inline std::string unescape(const char* s) {
  std::string o;
  for (const char* p = s; *p; p++) {
    if (*p == '\\' && p[1] == 'x' && p[2] && p[3]) { char h[3] = {p[2], p[3], 0}; o += (char) strtoul(h, 0, 16); p += 3; }
    else if (*p == '\\' && p[1] == '0') { o += '\0'; p++; }
    else if (*p == '\\' && p[1] == 'n') { o += '\n'; p++; }
    else if (*p == '@' && p[1] == 'Z') { int n = atoi(p + 2); o.append(n, '\0'); p = strchr(p + 1, '@'); if (!p) break; }
    else o += *p;
  }
  return o;
}
static inline bool frag_has_tag(const Frag& f, const char* tag) {
  std::string t = std::string(" ") + f.tags + " "; return t.find(std::string(" ") + tag + " ") != std::string::npos;
}
static inline int frag_index(const char* name) { for (int i = 0; i < NFRAGS; i++) if (!strcmp(FRAGS[i].name, name)) return i; return -1; }

struct GenRule { int frag; std::string name; bool is_global = false, is_private = false; std::string extra_cond; };
struct GenSet {
  std::vector<GenRule> rules;
  std::string source() const {
    std::string imports, body; std::vector<std::string> seen;
    for (auto& r : rules) {
      const Frag& f = FRAGS[r.frag];
      if (*f.import) { bool dup = false; for (auto& s : seen) if (s == f.import) dup = true; if (!dup) { seen.push_back(f.import); imports += std::string("import \"") + f.import + "\"\n"; } }
      if (r.is_global) body += "global ";
      if (r.is_private) body += "private ";
      body += "rule " + r.name + " : t_" + f.name + " lab {\n  meta:\n    frag = \"" + f.name + "\"\n    n = " + std::to_string(r.frag) + "\n    flag = true\n";
      if (*f.strings) body += std::string("  strings:\n    ") + f.strings + "\n";
      body += std::string("  condition:\n    ") + (r.extra_cond.empty() ? std::string(f.cond) : "(" + std::string(f.cond) + ") " + r.extra_cond) + "\n}\n";
    }
    return imports + body;
  }
  std::string plants() const { std::string p; for (auto& r : rules) { p += unescape(FRAGS[r.frag].plant); p += " -- "; } return p; }
};

// Draws n fragments (optionally restricted by a predicate) into a rule set.
template <class Pred>
static inline GenSet gen_ruleset(Rng& rng, int n, Pred allow, const char* prefix = "r") {
  GenSet g; std::vector<int> pool;
  for (int i = 0; i < NFRAGS; i++) if (allow(FRAGS[i])) pool.push_back(i);
  for (int k = 0; k < n && !pool.empty(); k++) { GenRule r; r.frag = pool[rng.below(pool.size())]; r.name = std::string(prefix) + std::to_string(k) + "_" + FRAGS[r.frag].name; g.rules.push_back(r); }
  return g;
}
static inline GenSet gen_all_frags(const char* prefix = "r") {
  GenSet g; for (int i = 0; i < NFRAGS; i++) { GenRule r; r.frag = i; r.name = std::string(prefix) + std::to_string(i) + "_" + FRAGS[i].name; g.rules.push_back(r); } return g;
}

// A text buffer with the given plants spread out, padded with seeded filler.
static inline std::string gen_text_buffer(Rng& rng, const std::string& plants, size_t min_size) {
  std::string b;
  static const char* filler = "the quick brown fox jumps over the lazy dog 0123456789 ";
  size_t fl = strlen(filler);
  size_t lead = rng.below(64);
  for (size_t i = 0; i < lead; i++) b += filler[(i + 7) % fl];
  b += plants;
  while (b.size() < min_size) b += filler[rng.below(fl)];
  return b;
}

// ------------------------------------------------------------- lab cases ----
// A generated rule set (1-3 namespaces, optional externals of all four types,
// random global/private flags, optional rule references) plus the buffers it
// is exercised on.  Needs yru.h (CompileSpec) to be included first.
#ifdef YR_YARA_H
struct LabCase { CompileSpec spec; std::vector<std::string> buffers; std::vector<std::string> buffer_names; std::string desc; };

static inline std::string ext_probe_rules() {
  return "rule x_int { condition: ext_i == 42 }\nrule x_int_arith { condition: ext_i * 2 + 1 == 85 }\nrule x_bool { condition: ext_b }\n"
         "rule x_float { condition: ext_f > 2.0 and ext_f < 3.0 }\nrule x_str { condition: ext_s contains \"needle\" and ext_s matches /ne+dle$/ }\n"
         "rule x_at { strings: $a = \"EXTMARK\" condition: $a at ext_off }\nrule x_in { strings: $a = \"EXTMARK\" condition: $a in (ext_off..ext_off + 2) }\n"
         "rule x_of { strings: $a = \"of_one\" $b = \"of_three\" $c = \"EXTMARK\" condition: ext_n of them }\n";
}
static inline void add_default_externals(CompileSpec& s) {
  s.externals.push_back({"ext_i", 'i', 42, 0, ""}); s.externals.push_back({"ext_b", 'b', 1, 0, ""});
  s.externals.push_back({"ext_f", 'f', 0, 2.5, ""}); s.externals.push_back({"ext_s", 's', 0, 0, "hay needle"});
  s.externals.push_back({"ext_off", 'i', 5, 0, ""}); s.externals.push_back({"ext_n", 'i', 2, 0, ""});
}

static inline LabCase gen_labcase(Rng& rng, int max_rules, bool modules, bool externals, bool flags) {
  LabCase lc;
  int nns = 1 + (int) rng.below(3);
  int n = 1 + (int) rng.below(max_rules);
  std::vector<GenSet> sets(nns);
  std::string plants;
  for (int k = 0; k < n; k++) {
    int f;
    do { f = (int) rng.below(NFRAGS); } while (!modules && *FRAGS[f].import);
    GenRule r; r.frag = f; r.name = "r" + std::to_string(k) + "_" + FRAGS[f].name;
    int ns = (int) rng.below(nns);
    if (flags && rng.chance(1, 10)) r.is_private = true;
    if (flags && rng.chance(1, 14) && !frag_has_tag(FRAGS[f], "none") && !frag_has_tag(FRAGS[f], "not")) r.is_global = true;
    // reference to an earlier rule of the same namespace
    if (!sets[ns].rules.empty() && rng.chance(1, 5)) { const GenRule& prev = sets[ns].rules[rng.below(sets[ns].rules.size())]; if (!prev.is_global) r.extra_cond = std::string(rng.chance(1, 2) ? "or " : "and not ") + prev.name; }
    sets[ns].rules.push_back(r);
    if (!r.is_global || rng.chance(3, 4)) { plants += unescape(FRAGS[f].plant); plants += " ~ "; }
  }
  if (externals) add_default_externals(lc.spec);
  // an external named like a built-in module that this rule set does not import: inside a scanner, externals and
  // module structures live in one table keyed by name
  bool imports_time = false; for (auto& gs : sets) for (auto& r : gs.rules) if (!strcmp(FRAGS[r.frag].import, "time")) imports_time = true;
  bool modname = externals && !imports_time;
  if (modname) lc.spec.externals.push_back({"time", 'i', 42, 0, ""});
  for (int i = 0; i < nns; i++) {
    if (sets[i].rules.empty() && !(externals && i == 0)) continue;
    std::string src = sets[i].source();
    if (externals && i == 0) src += ext_probe_rules();
    if (modname && i == 0) src += "rule x_modname { condition: time == 42 }\n";
    lc.spec.sources.push_back({i == 0 ? "" : "ns" + std::to_string(i), src});
  }
  lc.desc = std::to_string(n) + " rules/" + std::to_string(nns) + " ns" + (externals ? "+ext" : "");
  std::string text = "HEAD_EXTMARK " + gen_text_buffer(rng, plants, 600 + rng.below(3000));
  lc.buffers.push_back(text); lc.buffer_names.push_back("text+plants");
  lc.buffers.push_back(""); lc.buffer_names.push_back("empty");
  lc.buffers.push_back(gen_text_buffer(rng, "", 300)); lc.buffer_names.push_back("text-noplants");
  // state walker: every substring of up to four bytes of every plant (the atoms of the strings are among them), each
  // followed by 0xff - the scanner is taken into the automaton states the rule set has and made to look at the far end
  // of each state's transition window
  { std::string w; size_t p = 0; while (p < plants.size()) { size_t e = plants.find(" ~ ", p); if (e == std::string::npos) e = plants.size(); std::string pl = plants.substr(p, e - p); p = e + 3;
      for (size_t i = 0; i < pl.size(); i++) for (size_t l = 1; l <= 4 && i + l <= pl.size(); l++) { w += pl.substr(i, l); w += '\xff'; } }
    if (w.size() > 60000) w.resize(60000);
    lc.buffers.push_back(w); lc.buffer_names.push_back("state-walker"); }
  return lc;
}
#endif
