// Deterministic baton scheduler (DESIGN.md §2.3, Appendix B): tasks are real
// pthreads, exactly one of which holds the baton; every seam call and every
// instrumented basic block is a yield point; all choices come from one PRNG.
#pragma once
#include "sim.h"
#include <pthread.h>
#include <semaphore.h>
#include <time.h>

struct SchedPolicy {
  int kind = 0;                 // 0 random quanta, 1 PCT (priorities + change points), 2 round robin, 3 starve one task
  int switch_den[16] = {0};     // per yield class: switch with probability 1/den at that class (0 = never)  [random quanta]
  int64_t bb_mean = 20000;      // mean number of basic blocks between basic-block yield decisions
  int change_points = 3;        // PCT: number of priority change points, placed on sync-class yields
  int64_t sync_yields_estimate = 200;
  int starved = -1;
  int64_t max_steps = 4000000;  // yield decisions per run
};
enum SchedStatus { SCHED_OK = 0, SCHED_DEADLOCK = 1, SCHED_BUDGET = 2 };

struct SchedStats { int64_t switches = 0, decisions = 0, yields_by_kind[16] = {0}, blocked_on_mutex = 0, blocked_on_sem = 0, timed_wakeups = 0; uint64_t hash = 1469598103934665603ULL; int tasks = 0; std::string deadlock_info; };

void sched_begin(uint64_t seed, const SchedPolicy& p);                 // installs the hooks
// Explicit schedules.  Every run records its schedule as a list of entries
//   {kind, at, to}: kind 0 = voluntary switch at yield decision number `at` to task `to`;
//                   kind 1 = forced pick (the running task blocked or finished), n-th forced pick -> task `to`;
//                   kind 2 = wake-up choice, n-th choice -> index `to` into the waiter list.
// sched_begin_scripted() replays such a list: a task keeps the baton unless the script says otherwise, so
// deleting voluntary entries yields a simpler but still fully determined schedule (used for minimisation).
struct SchedEntry { int kind; int64_t at; int to; };
void sched_begin_scripted(uint64_t seed, const SchedPolicy& p, const std::vector<SchedEntry>& script);
const std::vector<SchedEntry>& sched_trace();
int sched_spawn(const std::function<void()>& fn);                      // may be called before sched_run or by a running task
SchedStatus sched_run();                                               // called by the controlling thread; returns when all tasks are done
void sched_end();                                                      // removes the hooks
const SchedStats& sched_stats();
int sched_self();                                                      // task id of the caller, -1 if not a task
void sched_yield(int kind, const void* site);
// lock sets (for the write-lockset rule): number of simulated mutexes the current task holds, and a hash of the set
int sched_locks_held();
extern std::function<void(int from, int to, int kind)> g_on_switch;
extern std::function<void(int task, bool holding)> g_on_lockop;      // before a simulated mutex is acquired / released: closes a lock-set segment    // invariant sampling hook (runs on the switching thread, baton held)

// simulated blocking primitives (addresses identify the objects)
int sched_mutex_lock(void* m);
int sched_mutex_unlock(void* m);
int sched_sem_init(void* s, unsigned value);
int sched_sem_wait(void* s, const struct timespec* abs_deadline);     // NULL: wait forever; returns 0 or ETIMEDOUT (as errno, -1)
int sched_sem_post(void* s);
int sched_join(int task);
