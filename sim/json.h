// Minimal JSON value, parser and writer (replay files, result lines).
#pragma once
#include <string>
#include <vector>
#include <map>
#include <memory>
#include <stdint.h>
#include <stdio.h>
#include <stdlib.h>
#include <string.h>

struct J {
  enum T { NUL, BOOL, INT, DBL, STR, ARR, OBJ } t = NUL;
  bool b = false; int64_t i = 0; double d = 0; std::string s;
  std::vector<J> a; std::vector<std::pair<std::string, J>> o;
  J() {}
  J(bool v) : t(BOOL), b(v) {}
  J(int v) : t(INT), i(v) {}
  J(long v) : t(INT), i(v) {}
  J(long long v) : t(INT), i(v) {}
  J(unsigned v) : t(INT), i(v) {}
  J(unsigned long v) : t(INT), i((int64_t) v) {}
  J(unsigned long long v) : t(INT), i((int64_t) v) {}
  J(double v) : t(DBL), d(v) {}
  J(const char* v) : t(STR), s(v) {}
  J(const std::string& v) : t(STR), s(v) {}
  static J arr() { J j; j.t = ARR; return j; }
  static J obj() { J j; j.t = OBJ; return j; }
  J& set(const std::string& k, const J& v) { t = OBJ; for (auto& kv : o) if (kv.first == k) { kv.second = v; return *this; } o.push_back({k, v}); return *this; }
  J& push(const J& v) { t = ARR; a.push_back(v); return *this; }
  const J* find(const std::string& k) const { for (auto& kv : o) if (kv.first == k) return &kv.second; return nullptr; }
  bool has(const std::string& k) const { return find(k) != nullptr; }
  const J& operator[](const std::string& k) const { static J nul; const J* p = find(k); return p ? *p : nul; }
  const J& operator[](size_t k) const { static J nul; return k < a.size() ? a[k] : nul; }
  int64_t num(int64_t def = 0) const { return t == INT ? i : t == DBL ? (int64_t) d : t == BOOL ? (b ? 1 : 0) : def; }
  double dbl(double def = 0) const { return t == DBL ? d : t == INT ? (double) i : def; }
  const std::string& str() const { return s; }
  bool truthy() const { return t == BOOL ? b : t == INT ? i != 0 : t != NUL; }
  size_t size() const { return t == ARR ? a.size() : t == OBJ ? o.size() : 0; }

  static void esc(std::string& out, const std::string& s) {
    out += '"';
    for (unsigned char c : s) {
      if (c == '"') out += "\\\""; else if (c == '\\') out += "\\\\";
      else if (c == '\n') out += "\\n"; else if (c == '\t') out += "\\t"; else if (c == '\r') out += "\\r";
      else if (c < 0x20 || c >= 0x7f) { char b[8]; snprintf(b, sizeof b, "\\u%04x", c); out += b; }   // bytes as latin-1 code points
      else out += (char) c;
    }
    out += '"';
  }
  void dump(std::string& out) const {
    switch (t) {
      case NUL: out += "null"; break;
      case BOOL: out += b ? "true" : "false"; break;
      case INT: out += std::to_string(i); break;
      case DBL: { char buf[40]; snprintf(buf, sizeof buf, "%.17g", d); out += buf; if (!strpbrk(buf, ".eEn")) out += ".0"; break; }
      case STR: esc(out, s); break;
      case ARR: out += '['; for (size_t k = 0; k < a.size(); k++) { if (k) out += ','; a[k].dump(out); } out += ']'; break;
      case OBJ: out += '{'; for (size_t k = 0; k < o.size(); k++) { if (k) out += ','; esc(out, o[k].first); out += ':'; o[k].second.dump(out); } out += '}'; break;
    }
  }
  std::string dump() const { std::string s; dump(s); return s; }

  // ---- parser (bytes written by esc() round-trip: \u00XX -> one byte)
  struct P { const char* p; const char* e; bool ok = true;
    void ws() { while (p < e && (*p == ' ' || *p == '\n' || *p == '\t' || *p == '\r')) p++; }
    J val() {
      ws(); if (p >= e) { ok = false; return J(); }
      char c = *p;
      if (c == '{') { p++; J j = J::obj(); ws(); if (p < e && *p == '}') { p++; return j; }
        while (ok) { ws(); J k = val(); if (k.t != STR) { ok = false; break; } ws(); if (p >= e || *p != ':') { ok = false; break; } p++; J v = val(); j.o.push_back({k.s, v}); ws(); if (p < e && *p == ',') { p++; continue; } if (p < e && *p == '}') { p++; break; } ok = false; }
        return j; }
      if (c == '[') { p++; J j = J::arr(); ws(); if (p < e && *p == ']') { p++; return j; }
        while (ok) { j.a.push_back(val()); ws(); if (p < e && *p == ',') { p++; continue; } if (p < e && *p == ']') { p++; break; } ok = false; }
        return j; }
      if (c == '"') { p++; J j; j.t = STR;
        while (p < e && *p != '"') {
          if (*p == '\\' && p + 1 < e) { p++; char x = *p++;
            if (x == 'n') j.s += '\n'; else if (x == 't') j.s += '\t'; else if (x == 'r') j.s += '\r'; else if (x == 'b') j.s += '\b'; else if (x == 'f') j.s += '\f';
            else if (x == 'u' && p + 4 <= e) { char h[5] = {p[0], p[1], p[2], p[3], 0}; unsigned v = strtoul(h, 0, 16); p += 4;
              if (v < 0x100) j.s += (char) v; else if (v < 0x800) { j.s += (char) (0xc0 | (v >> 6)); j.s += (char) (0x80 | (v & 0x3f)); } else { j.s += (char) (0xe0 | (v >> 12)); j.s += (char) (0x80 | ((v >> 6) & 0x3f)); j.s += (char) (0x80 | (v & 0x3f)); } }
            else j.s += x; }
          else j.s += *p++;
        }
        if (p < e) p++; else ok = false; return j; }
      if (!strncmp(p, "true", 4)) { p += 4; return J(true); }
      if (!strncmp(p, "false", 5)) { p += 5; return J(false); }
      if (!strncmp(p, "null", 4)) { p += 4; return J(); }
      char* end; bool isd = false; const char* q = p; if (*q == '-') q++; while (q < e && ((*q >= '0' && *q <= '9') || *q == '.' || *q == 'e' || *q == 'E' || *q == '+' || *q == '-')) { if (*q == '.' || *q == 'e' || *q == 'E') isd = true; q++; }
      if (q == p) { ok = false; return J(); }
      J j; if (isd) { j.t = DBL; j.d = strtod(p, &end); } else { j.t = INT; j.i = strtoll(p, &end, 10); } p = end; return j;
    } };
  static bool parse(const std::string& text, J& out) { P ps{text.data(), text.data() + text.size()}; out = ps.val(); ps.ws(); return ps.ok; }
  static bool load(const std::string& path, J& out) {
    FILE* f = fopen(path.c_str(), "rb"); if (!f) return false;
    std::string s; char buf[65536]; size_t n; while ((n = fread(buf, 1, sizeof buf, f)) > 0) s.append(buf, n); fclose(f);
    return parse(s, out);
  }
};

static inline std::string hex_enc(const std::string& s) { static const char* d = "0123456789abcdef"; std::string o; o.reserve(s.size() * 2); for (unsigned char c : s) { o += d[c >> 4]; o += d[c & 15]; } return o; }
static inline std::string hex_dec(const std::string& h) { std::string o; auto v = [](char c) { return c <= '9' ? c - '0' : (c | 32) - 'a' + 10; }; for (size_t i = 0; i + 1 < h.size(); i += 2) o += (char) (v(h[i]) << 4 | v(h[i + 1])); return o; }
