# Builds real yara code from $(REPO)'s *working tree* against the simulated
# environment (sim/), one build directory per variant.  See DESIGN.md §2.1.
#
#   make V=asan lib            -> $(B)/yr_all.o     (libyara, env refs redirected)
#   make V=asan engines        -> $(B)/<engine>
#   make setup                 -> all variants, all engines
#
REPO  ?= /repo
BUILD ?= /verif/.build
V     ?= asan
B     := $(BUILD)/$(V)
VERIF := $(dir $(abspath $(lastword $(MAKEFILE_LIST))))

CC  := gcc
CXX := g++

DEFS := -DPACKAGE_NAME=\"yara\" -DPACKAGE_TARNAME=\"yara\" -DPACKAGE_VERSION=\"4.5.2\" \
 -DPACKAGE_STRING=\"yara\ 4.5.2\" -DPACKAGE_BUGREPORT=\"x\" -DPACKAGE_URL=\"\" \
 -DPACKAGE=\"yara\" -DVERSION=\"4.5.2\" -DYYTEXT_POINTER=1 -DHAVE_STDIO_H=1 -DHAVE_STDLIB_H=1 \
 -DHAVE_STRING_H=1 -DHAVE_INTTYPES_H=1 -DHAVE_STDINT_H=1 -DHAVE_STRINGS_H=1 -DHAVE_SYS_STAT_H=1 \
 -DHAVE_SYS_TYPES_H=1 -DHAVE_UNISTD_H=1 -DSTDC_HEADERS=1 -DHAVE_DLFCN_H=1 -DHAVE_LIBM=1 \
 -DHAVE_MEMMEM=1 -DHAVE_TIMEGM=1 -DHAVE_CLOCK_GETTIME=1 -DHAVE_STDBOOL_H=1 \
 -DHAVE_OPENSSL_EVP_H=1 -DHAVE_OPENSSL_ASN1_H=1 -DHAVE_OPENSSL_CRYPTO_H=1 -DHAVE_OPENSSL_BIO_H=1 \
 -DHAVE_OPENSSL_PKCS7_H=1 -DHAVE_OPENSSL_X509_H=1 -DHAVE_OPENSSL_SAFESTACK_H=1 -DHAVE_LIBCRYPTO=1 \
 -DHAVE_SCAN_PROC_IMPL=1 -D_GNU_SOURCE -DUSE_LINUX_PROC -DDOTNET_MODULE -DHASH_MODULE \
 -DMACHO_MODULE -DDEX_MODULE -DBUCKETS_128=1 -DCHECKSUM_1B=1

SAN   := -fsanitize=address,undefined -fno-sanitize=alignment,nonnull-attribute,pointer-overflow -fsanitize-recover=undefined
OPT   := -O1 -g -fno-omit-frame-pointer -fno-optimize-sibling-calls
EXTRA :=
COVTU :=
ifeq ($(V),asan)
endif
ifeq ($(V),small)
EXTRA := -DYR_MAX_STRING_MATCHES=96 -DYR_SLOW_STRING_MATCHES=64
endif
ifeq ($(V),cov)
COV := -fsanitize-coverage=trace-pc
EXTRA := -DYR_MAX_STRING_MATCHES=96 -DYR_SLOW_STRING_MATCHES=64
endif
ifeq ($(V),plain)
SAN :=
OPT := -O2 -g -fno-omit-frame-pointer
endif
# reach measurement only (tools/reach.sh): line coverage of yara's sources under the quick tier, no sanitizer
ifeq ($(V),gcov)
SAN :=
OPT := -O0 -g -fno-omit-frame-pointer --coverage
EXTRA := -DYR_MAX_STRING_MATCHES=96 -DYR_SLOW_STRING_MATCHES=64 -DVERIF_GCOV=1
COV := -fsanitize-coverage=trace-pc
LDLIBS_X := --coverage
endif

INC := -I$(B)/gen -I$(REPO)/libyara/include -I$(REPO)/libyara -I$(REPO)
YCFLAGS := $(OPT) $(SAN) $(DEFS) $(EXTRA) $(INC) -w -fvisibility=default -fno-builtin-malloc -fno-builtin-calloc -fno-builtin-realloc -fno-builtin-free -fno-builtin-strdup -fno-builtin-strndup -fno-builtin-printf -fno-builtin-fprintf -fno-builtin-puts -fno-builtin-putchar -fno-builtin-fputs -fno-builtin-fputc

GEN := grammar hex_grammar re_grammar lexer hex_lexer re_lexer
LIB_C := $(filter-out $(addprefix $(REPO)/libyara/,$(addsuffix .c,$(GEN))),$(wildcard $(REPO)/libyara/*.c)) \
  $(REPO)/libyara/proc/linux.c $(wildcard $(REPO)/libyara/tlshc/*.c) \
  $(foreach m,tests elf math time pe console string hash dotnet macho dex,$(wildcard $(REPO)/libyara/modules/$(m)/*.c)) \
  $(wildcard $(REPO)/libyara/modules/pe/authenticode-parser/*.c)
LIB_O := $(patsubst $(REPO)/%.c,$(B)/obj/%.o,$(LIB_C)) $(patsubst %,$(B)/obj/gen/%.o,$(GEN))

# translation units that get basic-block yield points in the cov variant
COV_TUS := scanner scan exec re modules object notebook hash rules libyara arena exception stopwatch
cov_flag = $(if $(COV),$(if $(or $(filter $(COV_TUS),$(basename $(notdir $(1)))),$(findstring /modules/,$(1)),$(findstring /cli/,$(1))),$(COV),),)

CLI_C := $(REPO)/cli/args.c $(REPO)/cli/common.c $(REPO)/cli/threading.c $(REPO)/cli/yara.c $(REPO)/cli/yarac.c
CLI_INC := -I$(REPO)/cli
CLI_O := $(patsubst $(REPO)/%.c,$(B)/obj/%.o,$(CLI_C))

SIM_SRC := $(wildcard $(VERIF)sim/*.cc)
SIM_O := $(patsubst $(VERIF)sim/%.cc,$(B)/sim/%.o,$(SIM_SRC))
CXXFLAGS := -std=c++17 $(OPT) $(SAN) -Wall -Wno-unused-function -I$(VERIF)sim -I$(REPO)/libyara/include -I$(REPO)/libyara $(DEFS) $(EXTRA) -DVERIF_VARIANT=\"$(V)\"
LDLIBS := -lcrypto -lm -lpthread $(LDLIBS_X)

ENGINES := $(patsubst $(VERIF)engines/%.cc,%,$(wildcard $(VERIF)engines/*.cc))

# objects are rebuilt when the flags they were compiled with change
FLAGS_SIG := $(YCFLAGS) $(COV) $(CXXFLAGS)
$(shell mkdir -p $(B); echo '$(subst ','\'',$(FLAGS_SIG))' | cmp -s - $(B)/flags.sig || echo '$(subst ','\'',$(FLAGS_SIG))' > $(B)/flags.sig)

.PHONY: lib engines setup clean all
.SECONDARY:
all: engines
lib: $(B)/yr_all.o
engines: $(addprefix $(B)/,$(ENGINES))

setup:
	@mkdir -p $(BUILD)
	$(MAKE) -s V=asan engines
	$(MAKE) -s V=small engines
	$(MAKE) -s V=cov engines
	$(MAKE) -s V=plain $(BUILD)/plain/sim_persist

# ---- generated parser / lexer sources ------------------------------------
$(B)/gen/%.c: $(REPO)/libyara/%.y $(REPO)/libyara/%.c $(VERIF)tools/gen.sh
	@mkdir -p $(B)/gen
	@sh $(VERIF)tools/gen.sh y $(REPO)/libyara/$* $(B)/gen/$*
$(B)/gen/%.c: $(REPO)/libyara/%.l $(REPO)/libyara/%.c $(VERIF)tools/gen.sh
	@mkdir -p $(B)/gen
	@sh $(VERIF)tools/gen.sh l $(REPO)/libyara/$* $(B)/gen/$*
GEN_C := $(patsubst %,$(B)/gen/%.c,$(GEN))

$(B)/obj/gen/%.o: $(B)/gen/%.c $(B)/flags.sig | $(GEN_C)
	@mkdir -p $(dir $@)
	$(CC) $(YCFLAGS) -I$(REPO)/libyara -MMD -MP -c -o $@ $<

$(B)/obj/%.o: $(REPO)/%.c $(B)/flags.sig | $(GEN_C)
	@mkdir -p $(dir $@)
	$(CC) $(YCFLAGS) $(call cov_flag,$<) -MMD -MP -c -o $@ $<

# compiler.c reaches yr_arena_create through the simulator (C19 capacity seam)
$(B)/obj/libyara/compiler.o: $(REPO)/libyara/compiler.c $(B)/flags.sig | $(GEN_C)
	@mkdir -p $(dir $@)
	$(CC) $(YCFLAGS) -MMD -MP -c -o $@.tmp.o $<
	@mv $@.tmp.d $(B)/obj/libyara/compiler.d 2>/dev/null || true
	objcopy --redefine-sym yr_arena_create=sim_arena_create $@.tmp.o $@
	@rm -f $@.tmp.o

# cli mains get distinct names so that one engine can host both
$(B)/obj/cli/yara.o: $(REPO)/cli/yara.c $(B)/flags.sig | $(GEN_C)
	@mkdir -p $(dir $@)
	$(CC) $(YCFLAGS) $(COV) -Dmain=yara_cli_main -MMD -MP -c -o $@ $<
$(B)/obj/cli/yarac.o: $(REPO)/cli/yarac.c $(B)/flags.sig | $(GEN_C)
	@mkdir -p $(dir $@)
	$(CC) $(YCFLAGS) -Dmain=yarac_cli_main -MMD -MP -c -o $@ $<

$(B)/yr_all.o: $(LIB_O) $(VERIF)tools/libmap.txt
	ld -r -o $@.tmp $(LIB_O)
	objcopy --redefine-syms=$(VERIF)tools/libmap.txt $@.tmp $@
	@rm -f $@.tmp

# yara and yarac mains live in one engine: each CLI is combined into one relocatable
# object whose symbols are made local except its entry point (both define e.g. `options`)
CLI_YARA_O := $(B)/obj/cli/args.o $(B)/obj/cli/common.o $(B)/obj/cli/threading.o $(B)/obj/cli/yara.o
CLI_YARAC_O := $(B)/obj/cli/args.o $(B)/obj/cli/common.o $(B)/obj/cli/yarac.o
$(B)/cli_yara.o: $(CLI_YARA_O) $(VERIF)tools/climap.txt
	ld -r -o $@.tmp $(CLI_YARA_O)
	objcopy --redefine-syms=$(VERIF)tools/climap.txt --keep-global-symbol=yara_cli_main --keep-global-symbol=queue_head --keep-global-symbol=queue_tail $@.tmp $@
	@rm -f $@.tmp
$(B)/cli_yarac.o: $(CLI_YARAC_O) $(VERIF)tools/climap.txt
	ld -r -o $@.tmp $(CLI_YARAC_O)
	objcopy --redefine-syms=$(VERIF)tools/climap.txt --keep-global-symbol=yarac_cli_main $@.tmp $@
	@rm -f $@.tmp

# ---- simulator + engines ---------------------------------------------------
$(B)/sim/%.o: $(VERIF)sim/%.cc $(wildcard $(VERIF)sim/*.h) $(B)/flags.sig
	@mkdir -p $(dir $@)
	$(CXX) $(CXXFLAGS) -c -o $@ $<

$(B)/eng/%.o: $(VERIF)engines/%.cc $(wildcard $(VERIF)sim/*.h) $(wildcard $(VERIF)engines/*.h) $(B)/flags.sig
	@mkdir -p $(dir $@)
	$(CXX) $(CXXFLAGS) -I$(VERIF)engines -c -o $@ $<

$(B)/sim_cli: $(B)/eng/sim_cli.o $(SIM_O) $(B)/yr_all.o $(B)/cli_yara.o $(B)/cli_yarac.o $(B)/markA.o $(B)/markZ.o
	$(CXX) $(SAN) -no-pie -o $@ $(B)/eng/sim_cli.o $(SIM_O) $(B)/markA.o $(B)/yr_all.o $(B)/markZ.o $(B)/cli_yara.o $(B)/cli_yarac.o $(LDLIBS)

$(B)/%: $(B)/eng/%.o $(SIM_O) $(B)/yr_all.o $(B)/markA.o $(B)/markZ.o
	$(CXX) $(SAN) -no-pie -o $@ $< $(SIM_O) $(B)/markA.o $(B)/yr_all.o $(B)/markZ.o $(LDLIBS)

$(B)/markA.o: $(VERIF)tools/mark.c
	@mkdir -p $(B)
	$(CC) -c -DMARK=A -o $@ $<
$(B)/markZ.o: $(VERIF)tools/mark.c
	@mkdir -p $(B)
	$(CC) -c -DMARK=Z -o $@ $<

clean:
	rm -rf $(BUILD)

-include $(LIB_O:.o=.d) $(CLI_O:.o=.d)
