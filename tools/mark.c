/* Marker objects linked immediately before/after yr_all.o so that libyara's
   .data and .bss can be bracketed (DESIGN.md §5.C09 invariant 3). */
#define CAT_(a,b) a##b
#define CAT(a,b) CAT_(a,b)
char CAT(sim_mark_data_,MARK)[64] = {1};
char CAT(sim_mark_bss_,MARK)[64];
