#!/bin/sh
# confirm_seed.sh <dir with patch.diff + build_and_run.sh> <tag>
# Confirms a seeded change in a scratch worktree of /repo's HEAD: demo passes without the change,
# the change applies and compiles, the shipped test suite still passes, the demo fails with it.
D="$1"; TAG="$2"; PATCH="${3:-patch.diff}"; WT=/tmp/cs-$TAG
rm -rf $WT; /verif/tools/mkworktree.sh $WT >/dev/null 2>&1 || { echo "$TAG: worktree failed"; exit 1; }
( cd $D && sh ./build_and_run.sh $WT ) >/tmp/cs-$TAG.base.log 2>&1; base=$?
if ! git -C $WT apply $D/$PATCH 2>/tmp/cs-$TAG.apply.log; then echo "$TAG: base_demo=$base PATCH DOES NOT APPLY"; git -C /repo worktree remove --force $WT; exit 2; fi
( cd $WT && make -j8 >/tmp/cs-$TAG.make.log 2>&1 ); mk=$?
pass=$( cd $WT && make -j8 check 2>&1 | grep "^# PASS" | awk '{print $3}' )
( cd $D && sh ./build_and_run.sh $WT ) >/tmp/cs-$TAG.mut.log 2>&1; mut=$?
git -C /repo worktree remove --force $WT
echo "$TAG: base_demo=$base make=$mk tests_pass=$pass mutated_demo=$mut"
