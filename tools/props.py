# Per-property configuration of the check driver.
REAL_LIB = ["libyara (compiler, arena, Aho-Corasick, VM, regex, scanner, all modules incl. macho/dex and the authenticode parser) built from $REPO's working tree", "libcrypto", "libc string/stdio"]

PROPS = {
 "C16": {
  "engine": "sim_alloc", "variant": "asan", "level": "fault_enumeration",
  "parts": [{}],
  "exhaustive_thorough": True,
  "rule": "one case = (scenario from a fixed set of 29 API scenarios, k, mode): the k-th allocation made by yara object code fails (mode A) or the k-th and all later ones fail (mode B); thorough enumerates every k of every scenario in both modes, quick every k of scenarios with <=1200 allocations plus a seeded 1/8 sample elsewhere and a 24-point stride for mode B. Non-trivial = the fault actually fired; distinct = distinct (scenario, failing allocation call chain, mode, outcome of the interrupted API call).",
  "components": {"real": REAL_LIB, "stub": ["allocator policy under yara code (memory itself comes from the real malloc)", "clock", "rand"]},
  "assumptions": ["allocations inside libcrypto/libc are real and never fail", "each case runs in a forked child under ASan+UBSan; a crash is attributed through the child's stderr"],
 },
}
