# Per-property configuration of the check driver.
REAL_LIB = ["libyara (compiler, arena, Aho-Corasick, VM, regex, scanner, all modules incl. macho/dex and the authenticode parser) built from $REPO's working tree", "libcrypto", "libc string/stdio"]

PROPS = {
 "C16": {
  "engine": "sim_alloc", "variant": "asan", "level": "fault_enumeration",
  "parts": [{}],
  "exhaustive_thorough": True,
  "rule": "one case = (scenario from a fixed set of 29 API scenarios, k, mode): the k-th allocation made by yara object code fails (mode A) or the k-th and all later ones fail (mode B); thorough enumerates every k of every scenario in both modes, quick every k of scenarios with <=1200 allocations plus a seeded 1/8 sample elsewhere and a 24-point stride for mode B. Non-trivial = the fault actually fired; distinct = distinct (scenario, failing allocation call chain, mode, outcome of the interrupted API call).",
  "components": {"real": REAL_LIB, "stub": ["allocator policy under yara code (memory itself comes from the real malloc)", "clock", "rand"]},
  "assumptions": ["allocations inside libcrypto/libc are real and never fail", "each case runs in a forked child under ASan+UBSan; a crash is attributed through the child's stderr"],
 },
}

PROPS["C17"] = {
  "engine": "sim_persist", "variant": "asan", "level": "fault_enumeration",
  # second part: the same crash points seen through the command line (`yarac` output cut at byte n, then `yara -C`)
  "parts": [{"args": ["--mode", "c17"]}, {"engine": "sim_cli", "variant": "cov", "args": ["--mode", "c17cli", "--runs", "48"], "budget_quick": 25, "budget_thorough": 200}],
  "budget_quick": 90, "budget_thorough": 600,
  "exhaustive_thorough": False,
  "rule": "one case = (compiled rule file F produced by the library from a generated rule set, fault): the writer crashes after n bytes (a prefix of F is loaded) for every n when |F| <= 6000 (quick) / 16384 (thorough) and for every header/table byte, every section boundary +-8, every relocation-entry boundary and a seeded interior sample otherwise; or one header / buffer-table / relocation-entry field is corrupted (magic, version, num_buffers, each offset and size at 0, +-1, +-8, +16, next size, 2^31-1, 2^32-1); or yr_rules_save(path) runs onto a simulated disk that fills at byte n and yr_rules_load(path) follows. Oracle: load fails and leaves *rules untouched, or (corruptions only) the loaded rules scan a buffer corpus identically. Non-trivial = every case injects a fault; distinct = distinct (rule file, cut point | field,value).",
  "components": {"real": REAL_LIB, "stub": ["YR_STREAM backing store (simulated disk with durable length)", "fwrite/fclose under yr_rules_save (disk-full)", "allocator policy"]},
  "assumptions": ["writes are sequential, so prefixes are the crash states of the writer", "corruption cases run load+scan in a forked child; an abort or sanitizer report there is an outcome, not a harness failure"],
}
PROPS["C08"] = {
  "engine": "sim_persist", "variant": "asan", "level": "exploration",
  # second part: the same engine built like the shipped library (-O2, no sanitizer): struct copies then carry
  # padding bytes, which the -O1 ASan build copies member by member
  "parts": [{"args": ["--mode", "c08"]}, {"variant": "plain", "args": ["--mode", "c08", "--only", "roundtrip"], "budget_quick": 30, "budget_thorough": 300}],
  "budget_quick": 90, "budget_thorough": 600,
  "rule": "one run = a generated rule set (RuleLab fragments over 1-3 namespaces, externals of all four types, global/private flags, rule references) taken through a seeded history: compile under heap layout/junk A, scan, save, scan original again, save again, load through a stream whose disk delivers at most c bytes per read, destroy the original, scan the copy; recompile under layout/junk B and compare images; stream write error at item n followed by scans and a re-save of the original; rules-level defines followed by save+load. Non-trivial = all runs (each perturbs heap layout and chunking or injects a write fault); distinct = distinct (rule set, chunk, junk, fault position).",
  "components": {"real": REAL_LIB, "stub": ["YR_STREAM read/write callbacks (chunked simulated disk, write errors)", "allocator addresses, padding and junk fill"]},
  "assumptions": ["images are compared within one process under perturbed heap layouts and junk rather than across processes with different ASLR", "saving a rule set obtained from yr_rules_load* is out of scope (docs/capi.rst says such rules cannot be saved)"],
}
PROPS["C19"] = {
  "engine": "sim_persist", "variant": "asan", "level": "exploration",
  "parts": [{"args": ["--mode", "c19"]}],
  "budget_quick": 90, "budget_thorough": 600,
  "rule": "one run = (generated rule set, initial capacity of every compiler arena buffer drawn from {1,2,3,7,8,16,24,64,100,512,4096,65536} or a seeded arbitrary value, realloc forced to always move with the old block poisoned, optional splitting of each source into two add_string calls); oracle: no sanitizer report, scan traces and saved image byte-identical to the default-capacity compilation. Non-trivial = at least one block was relocated; distinct = distinct (rule set, capacity, split).",
  "components": {"real": REAL_LIB, "stub": ["yr_arena_create initial size as seen by compiler.c (link-time seam)", "realloc policy (always moves, junk-fills, old block freed/poisoned)"]},
  "assumptions": ["growth positions are sampled through the capacity choice; with capacity 1 every allocation relocates"],
}

PROPS["C13"] = {
  "engine": "sim_blocks", "variant": "asan", "level": "fault_enumeration",
  "parts": [{}],
  "budget_quick": 60, "budget_thorough": 600,
  "exhaustive_quick": False,
  "rule": "one run = (generated rule set incl. entrypoint / uintN / fullword-at-end probes and modules, buffer from {text with planted patterns, exact sizes 0,1,100,4095,4096,4097,8192 with a match ending on the last byte, PE, ELF}, entry point or block partition, fault plan). Entry points: scanner/mem, file, fd (rules and scanner level), single-block iterator, each compared with yr_rules_scan_mem on an exact-size heap copy (ASan red zone behind the last byte); open/fstat/mmap/fstatfs failures must give the documented error, no callback and balanced fd/mapping ledgers. Interrupted iteration: for a partition into b blocks, EVERY non-empty subset of the b+1 logical iterator calls answers not-ready (once, or 2-3 times at one call) when b <= 5, seeded subsets for b = 6..12; optional failed fetch; concatenated trace over the repeated calls must equal the uninterrupted scan of the same partition, every intermediate call returns exactly ERROR_BLOCK_NOT_READY without rule/finished messages, and the number of calls equals 1 + not-ready answers. Separately, not-ready during the re-iteration performed by rule evaluation. Non-trivial = a fault fired or a non-default entry point ran; distinct = distinct (rules, buffer, partition, plan).",
  "components": {"real": REAL_LIB, "stub": ["YR_MEMORY_BLOCK_ITERATOR (harness iterator: partition, not-ready plan, failed fetch)", "open/fstat/fstatfs/mmap/munmap/close error injection and ledgers (real syscalls underneath)"]},
  "assumptions": ["exhaustive over not-ready subsets only up to 5 blocks", "the reference for an interrupted scan is the uninterrupted scan of the same partition (matches spanning a block border are out of scope for both)"],
}

PROPS["C11"] = {
  "engine": "sim_protocol", "variant": "asan", "level": "fault_enumeration",
  "parts": [{}],
  "budget_quick": 60, "budget_thorough": 600,
  "exhaustive_quick": False,
  "rule": "one run = (generated rule set of 1-10 rules over 1-3 namespaces spread over 1-5 source units that revisit namespaces, each rule ordinary/global/private/global+private, conditions over {true,false,own string planted or not,undefined,not,and,or,references to earlier rules,module calls with known value}, 0-4 imports per unit incl. repeated imports, optional console.log; report flags in {0,MATCHING,NOT_MATCHING,both}; reply plan = CONTINUE everywhere or ABORT/ERROR at message k). For each rule set and flag setting EVERY k of the model trace and both replies are run (ABORT only on rule messages, ERROR on rule and module messages; unspecified positions are not injected). Oracle: executable model of the protocol (Appendix A.1): observed message sequence == model prefix through k, return code == model's. Non-trivial = a reply other than CONTINUE was injected; distinct = distinct (rule set, flags, k, reply).",
  "components": {"real": REAL_LIB, "stub": ["scan callback (consumer behaviour: reply plan)", "model evaluator for the generated condition language (oracle)"]},
  "assumptions": ["ABORT in reply to a module message, and any reply to CONSOLE_LOG / SCAN_FINISHED, are unspecified by the property and not injected", "the model evaluates only the generated condition language; other condition features are C04 territory"],
}

PROPS["C10"] = {
  "engine": "sim_history", "variant": "small", "level": "exploration",
  "parts": [{"args": ["--mode", "c10"]}],
  "budget_quick": 75, "budget_thorough": 600,
  "rule": "one run = one long-lived scanner driven through a generated history of 3-12 scans; each scan = (buffer from {text with plants, PE, ELF, empty, many-matches, fiber-bomb, second text}, entry point mem/file/2-block iterator, report flags, module data, injected outcome from {none, callback ABORT/ERROR at message k, simulated clock jumping past the deadline at clock read j, match-limit warning answered CONTINUE/ABORT (limit lowered to 96 by the build knob), iterator not-ready resumed / abandoned}). Oracle: every scan's trace and return code equal those of a freshly created scanner given the same settings, buffer and fault plan; after every completed scan the public scan context holds no match lists, no notebook and a balanced regex fiber pool; destroying the scanner after the history leaves no allocation behind. Failing histories are shrunk by dropping scans. Non-trivial = all histories (each reuses the scanner); distinct = distinct (rules, history shape).",
  "components": {"real": REAL_LIB, "stub": ["scan callback replies", "clock (simulated; only source of time for the scanner)", "block iterator", "allocator ledger"]},
  "assumptions": ["scanner-level settings (flags, timeout, callback) are re-applied before every scan on both scanners", "YR_MAX_STRING_MATCHES lowered to 96 through the #ifndef-guarded knob in limits.h"],
}
PROPS["C20"] = {
  "engine": "sim_history", "variant": "asan", "level": "exploration",
  "parts": [{"args": ["--mode", "c20"]}, {"engine": "sim_cli", "variant": "cov", "args": ["--mode", "c20cli", "--runs", "69"], "budget_quick": 40, "budget_thorough": 120}],
  "budget_quick": 60, "budget_thorough": 600,
  "rule": "one run = a seeded operation history over a compiler, the rule set it produces (and a saved+loaded copy), and up to four scanners: compile-time defines of all four types incl. duplicates and NULL strings; rules-level and scanner-level defines incl. unknown identifiers, wrong types and NULL; scanner creation; scans through each scanner and rules-level scans. Oracle: three-level environment model (compile-time -> rule-set -> per-scanner snapshot at creation) predicting every define's return code and the verdict of 13 modelled probe rules (==, arithmetic, boolean, float range, contains/matches, `at`, `in`, `of` quantifier, loop bound, variable-vs-variable, an external named like a non-imported module) plus 28 literal-twin rules: each t_* rule is also compiled with every external textually replaced by a literal of its current value and the twin's verdict on the same buffer is the expectation (#a in, N of them in/at, for N of, enumerations, bitwise, shifts, % and \\, float arithmetic, string ordering and (i)startswith/(i)endswith/icontains/iequals/matches, uintN(), @a[i]/!a[i], defined, unary minus, and one single-use `$a at <expr>` rule per arithmetic operator because that is where the compile-time value of the expression is consumed); after every define ALL scanners and a rules-level scan are re-checked (isolation). Failing histories are shrunk. Second part, through the command line: `-d id=value` for 23 values of all four types (zero-padded, negative, beyond 32 bits, INT64_MAX; floats; booleans; strings that look almost like numbers) at the three levels the CLI offers (yara RULES, yarac -d, yara -C -d over a placeholder) against the same rules with the value written as a literal. Non-trivial = all histories; distinct = distinct operation/value sequence.",
  "components": {"real": REAL_LIB + ["cli/yara.c, cli/yarac.c, cli/common.c, cli/args.c (second part)"], "stub": ["reference environment model (oracle)"]},
  "assumptions": ["integer vs boolean at scanner level is deliberately unchecked (same object type in the implementation, undocumented)", "NULL string values are not passed at scanner level (unspecified)", "save+load is skipped once a rules-level string define happened (that history aborts in save: C08 finding)"],
}

PROPS["C15"] = {
  "engine": "sim_clock", "variant": "cov", "level": "exploration",
  "parts": [{"args": ["--mode", "time"], "variant": "cov", "max_workers": 9}, {"args": ["--mode", "limits"], "variant": "small"}],
  "budget_quick": 60, "budget_thorough": 600,
  "rule": "(a) timeouts under a simulated clock (the scanner's only clock): nine long-running workloads (dense/sparse atoms and a pathological regex on growing data, flat / 4-deep nested / for-of / uintN loops with growing bounds, a module function in a loop with growing bound and with growing data) at 3-4 geometric scales; the clock jumps past the deadline at clock read j for EVERY j of the fault-free run when that has <=160 (quick) / 2000 (thorough) reads, seeded sample above; oracle: TIMEOUT returned at that read with at most one further read and no rule/finished message afterwards, zero timeout => zero reads, same scanner usable afterwards; check density: the largest stretch of work (executed basic blocks, from -fsanitize-coverage=trace-pc) between two clock reads must not grow when the workload grows x4. (b) a string reaches the match cap (lowered to 96 by the build knob): CONTINUE => success, at most one warning per string, other rules' results equal those with the offending rule compiled out, muting ends with the scan; ABORT/ERROR => TOO_MANY_MATCHES. (c) boundary table: loop nesting, strings per rule, include depth, identifier length, integer literal, regex size / split ids, VM stack, regex fibers, match data at 1, L-1, L, L+1, 10L: only the documented error, monotone, enforced far beyond, library usable afterwards. Non-trivial = a clock jump, limit or warning actually fired; distinct = distinct (workload, scale, j) / (case, reply) / (limit, size).",
  "components": {"real": REAL_LIB, "stub": ["clock_gettime (simulated: advances only by script)", "scan callback replies", "work counter = compiler-inserted basic-block callback in scanner.c scan.c exec.c re.c modules.c object.c notebook.c hash.c rules.c libyara.c arena.c and all module sources"]},
  "assumptions": ["time inside libcrypto (hash.*) is not instrumented and not measured", "delay after the deadline is measured in work between clock reads, not in wall time", "boundary semantics at exactly L-1/L/L+1 are not pinned (either outcome accepted) - only the error kind, monotonicity and enforcement far beyond the limit"],
}

PROPS["C09"] = {
  "engine": "sim_threads", "variant": "cov", "level": "exploration",
  "parts": [{}],
  "budget_quick": 55, "budget_thorough": 600,
  "rule": "one run = 2-6 (1 in 12 runs: 8-32) real threads under the baton scheduler sharing one compiled rule set (strings, regexes, every module, externals); each thread runs 1-6 scans through its own scanner or the rules-level calls (mem, file, fd, 2-block iterator, mapped file truncated right after mapping => real SIGBUS inside the trycatch) with its own callback plan (ABORT/ERROR at message k), timeout, scanner-level externals and module data; some runs add a thread compiling unrelated (also failing) rules. Yield points: every basic block of scanner.c scan.c exec.c re.c modules.c object.c notebook.c hash.c rules.c libyara.c arena.c and the modules (compiler instrumentation), every allocation/free, callback, iterator call, clock read, mutex lock/unlock, sigaction and file syscall. Scheduling policy drawn per run: random quanta per yield class, PCT priorities with 1-4 change points on synchronisation yields, round robin, or one starved thread. Oracles: every scan == the same scan run alone; shared rule set memory unchanged (hash at 1 in 8 switches and at quiescence); libyara .data/.bss words written by two threads without a common simulated lock (diffed at every context switch); SIGBUS/SIGSEGV dispositions and handler use count restored; allocation/fd/mapping ledgers balanced; no deadlock, step budget. Non-trivial = at least one context switch; distinct = distinct context-switch sequence hash (from-task, to-task, yield kind).",
  "components": {"real": REAL_LIB + ["real pthreads parked/released by the scheduler", "real SIGBUS delivery and yara's signal handler"], "stub": ["thread scheduling (baton)", "pthread_mutex_lock/unlock as seen by yara (simulated blocking)", "per-thread simulated clocks", "allocator ledger", "file syscalls ledger"]},
  "assumptions": ["threads are serialised: two conflicting accesses inside one basic block of each thread cannot be interleaved; such races are visible only through the shared-state invariants", "the schedule is regenerated from (seed, run) on replay and verified through its hash rather than stored decision by decision", "a SIGBUS during rule evaluation (not the scan loop) is outside this check"],
}

PROPS["C18"] = {
  "engine": "sim_cli", "variant": "cov", "level": "exploration",
  "parts": [{}],
  "budget_quick": 45, "budget_thorough": 600,
  "rule": "one run = the real `yara` main (and `yarac` for pre-compiled rules) executed in a forked child under the baton scheduler on a generated directory tree (1-200 files, both fewer and more than the 64 queue slots; PE / ELF / text / empty / many-matches contents; nested directories with -r; or a scan-list file; files that cannot be opened) with options drawn from -s -L -X -m -g -e -f -w -c -n -t -i -l, -p N in {1,2,3,4,8,16,32}, externals given to yara or to yarac; directory entries are returned in a seeded order; every basic block of cli/*.c, every pthread/semaphore call under cli/threading.c, thread create/join, printf-family call, allocation and file open is a yield point; policy per run from {random quanta, PCT change points, round robin, one starved thread}. Oracles: multiset of stdout records (rule line + its string lines, contiguous) == union of single-threaded single-file invocations (`-p 1 --scan-list` of one path) with the same options; same for stderr lines; pre-compiled rules give the same output; no deadlock / step budget; exit status != 0 iff an error line was printed. Non-trivial = at least one context switch; distinct = distinct context-switch sequence hash.",
  "components": {"real": ["cli/yara.c main", "cli/yarac.c main", "cli/threading.c", "cli/args.c", "cli/common.c"] + REAL_LIB, "stub": ["pthread_create/join, pthread_mutex_lock/unlock, sem_* beneath cli/threading.c (simulated blocking, baton scheduler)", "opendir/readdir order", "printf/fprintf/putchar/puts sinks", "exit()", "time()", "open() failure for paths named unreadable*"]},
  "assumptions": ["threads are serialised (see C09)", "the schedule is regenerated from (seed, run) on replay", "-a (timeout) and -D (module data dump) are not drawn", "the queue-index lock-set invariant of the design is not implemented; lost/duplicated paths are caught through the output multiset"],
}
