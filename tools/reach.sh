#!/bin/bash
# reach.sh [Cxx ...] : line coverage of yara's own sources under each property's quick check.
# Builds the `gcov` variant (no sanitizer, --coverage; forked children flush their counters before _exit),
# runs the quick tier of each named check (all by default) against it, and writes per-property .gcov files under
# .build/reach/<Cxx>/ plus a summary (tools/reach_sum.py).  A measurement aid, not a check: it decides nothing, it
# shows which lines of the files a property is anchored in are never executed by the property's workload.
set -e
V=/verif; OUT=$V/.build/reach; mkdir -p $OUT
PROPS="${@:-C08 C09 C10 C11 C13 C15 C16 C17 C18 C19 C20}"
for p in $PROPS; do
  find $V/.build/gcov -name '*.gcda' -delete 2>/dev/null || true
  VERIF_VARIANT_OVERRIDE=gcov VERIF_NO_KNOWN=1 VERIF_NO_EVIDENCE=1 $V/check $p quick > $OUT/$p.log 2>&1 || true
  rm -rf $OUT/$p; mkdir -p $OUT/$p
  ( cd $OUT/$p && for g in $(find $V/.build/gcov/obj -name '*.gcda'); do gcov -b -o $(dirname $g) $g >/dev/null 2>&1 || true; done )
  echo "$p: $(ls $OUT/$p | wc -l) source files with counters"
done
python3 $V/tools/reach_sum.py $OUT
