#!/bin/sh
# try_patch.sh <patch.diff> <Cxx> [tier] : apply a seeded change to /repo, run the check, undo it.
P="$1"; C="$2"; T="${3:-quick}"
git -C /repo apply "$P" || { echo "patch does not apply"; exit 3; }
cd /verif && ./check "$C" "$T" > /tmp/try.$C.out 2>&1; rc=$?
git -C /repo checkout -- . 
echo "check $C $T on $(basename $(dirname $P))/$(basename $P): exit=$rc"
grep "^VIOLATION\|HARNESS\|BUILD FAILED" /tmp/try.$C.out | cut -c1-260 | head -${4:-8}
tail -1 /tmp/try.$C.out | cut -c1-200
exit $rc
