#!/bin/sh
# admit_mutants.sh : for every mutants/*.patch, apply it in a built scratch worktree, rebuild, run the shipped
# test suite; a mutant is admitted only if it compiles and the suite still passes (16/16). Writes mutants/ADMITTED.txt
WT=/tmp/wt-mut
[ -f $WT/Makefile ] || ( cd $WT && ./configure CFLAGS=' -Wno-error' >/dev/null 2>&1 )
( cd $WT && make -j16 >/dev/null 2>&1 )
: > /verif/mutants/ADMITTED.txt
for p in /verif/mutants/*.patch; do
  n=$(basename $p .patch)
  grep -v '^# ' $p > /tmp/mut.apply.diff
  if ! git -C $WT apply /tmp/mut.apply.diff 2>/dev/null; then echo "$n does-not-apply" >> /verif/mutants/ADMITTED.txt; continue; fi
  if ! ( cd $WT && make -j16 >/tmp/mut.make.log 2>&1 ); then echo "$n does-not-compile" >> /verif/mutants/ADMITTED.txt; git -C $WT checkout -- .; continue; fi
  pass=$( cd $WT && timeout 600 make -j16 check 2>&1 | grep "^# PASS" | awk '{print $3}' )
  echo "$n tests_pass=$pass" >> /verif/mutants/ADMITTED.txt
  git -C $WT checkout -- .
done
cat /verif/mutants/ADMITTED.txt
