#!/usr/bin/env python3
"""collect_sigs.py <Cxx> <tier> <seed> [<seed>...] : run a check under several seeds and collect violation signatures (for triage)."""
import sys, subprocess, re, json, os, collections
prop, tier, seeds = sys.argv[1], sys.argv[2], sys.argv[3:]
sigs = collections.OrderedDict()
for s in seeds:
    env = dict(os.environ); env["VERIF_SEED"] = s; env["VERIF_NO_KNOWN"] = "1"
    p = subprocess.run(["/verif/check", prop, tier], stdout=subprocess.PIPE, stderr=subprocess.PIPE, text=True, env=env)
    lines = p.stdout.splitlines()
    for i, l in enumerate(lines):
        m = re.match(r"VIOLATION property=(\S+) replay=(\S+) class=(\S+) sig=(.*) count=(\d+)$", l)
        if m:
            sig = m.group(4)
            e = sigs.setdefault(sig, {"class": m.group(3), "count": 0, "seeds": [], "detail": (lines[i+1].strip() if i+1 < len(lines) else "")[:300]})
            e["count"] += int(m.group(5)); e["seeds"].append(s)
    print("seed", s, "exit", p.returncode, p.stderr.strip().splitlines()[-1][:160] if p.stderr.strip() else "", file=sys.stderr)
json.dump(sigs, open("/tmp/sigs.%s.json" % prop, "w"), indent=1)
print(len(sigs), "signatures ->", "/tmp/sigs.%s.json" % prop)
