#!/bin/sh
# gen.sh y|l <repo/libyara/stem> <build/gen/stem>
# Mimics what /repo's own make does: the checked-in generated .c is used unless
# the .y/.l source is newer, in which case it is regenerated with the installed
# bison/flex (same versions as the checked-in output).
kind=$1; src=$2; dst=$3
if [ "$kind" = y ]; then
  if [ "$src.y" -nt "$src.c" ]; then
    bison -d -Wno-yacc -Wno-other -Wno-conflicts-sr -o "$dst.c" "$src.y" 2>/dev/null || { echo "bison failed on $src.y" >&2; exit 1; }
  else
    cp "$src.c" "$dst.c"; cp "$src.h" "$dst.h"
  fi
else
  if [ "$src.l" -nt "$src.c" ]; then
    flex -o "$dst.c" "$src.l" 2>/dev/null || { echo "flex failed on $src.l" >&2; exit 1; }
  else
    cp "$src.c" "$dst.c"
  fi
fi
