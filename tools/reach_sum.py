#!/usr/bin/env python3
"""reach_sum.py <dir> [file.c ...]: merges the per-property .gcov files written by tools/reach.sh.
Prints per source file: executable lines, lines executed under at least one property's quick check; for the
files named on the command line also the ranges never executed."""
import glob, re, os, sys, collections
root = sys.argv[1]
props = sorted(d for d in os.listdir(root) if os.path.isdir(os.path.join(root, d)))
cov = collections.defaultdict(dict); src = {}
for p in props:
    for f in glob.glob(os.path.join(root, p, '*.gcov')):
        name = os.path.basename(f)[:-5]
        for l in open(f, errors='replace'):
            m = re.match(r'\s*([^:]+):\s*(\d+):(.*)', l)
            if not m: continue
            c, n, t = m.group(1).strip(), int(m.group(2)), m.group(3)
            if n == 0 or c == '-': continue
            src.setdefault(name, {})[n] = t
            s = cov[name].setdefault(n, set())
            if c.rstrip('*') not in ('#####', '====='): s.add(p)
print("%-24s %6s %6s %5s" % ("file", "lines", "hit", "%"))
for name in sorted(cov):
    tot = len(cov[name]); hit = sum(1 for n in cov[name] if cov[name][n])
    print("%-24s %6d %6d %5.1f" % (name, tot, hit, 100.0 * hit / max(tot, 1)))
for name in sys.argv[2:]:
    print("==== never executed in", name)
    ls = sorted(n for n in cov.get(name, {}) if not cov[name][n]); i = 0
    while i < len(ls):
        j = i
        while j + 1 < len(ls) and ls[j + 1] - ls[j] <= 2: j += 1
        print("  %d-%d: %s" % (ls[i], ls[j], src[name][ls[i]].strip()[:110])); i = j + 1
