#!/bin/sh
# usage: mkworktree.sh <dir> [nobuild]
# Scratch git worktree of /repo's HEAD with the (untracked) autotools
# infrastructure copied over, configured like /repo and built.
set -e
D="$1"
git -C /repo worktree add --detach "$D" HEAD >/dev/null 2>&1
cd /repo
rsync -a configure Makefile.in aclocal.m4 build-aux m4 "$D"/
cd "$D"
# keep timestamps ordered so make does not try to re-run autotools
touch aclocal.m4; sleep 1; touch configure Makefile.in
[ "$2" = nobuild ] && exit 0
./configure CFLAGS=' -Wno-error' >/dev/null 2>&1
make -j16 >/dev/null 2>&1
echo "worktree ready: $D"
