#!/usr/bin/env python3
"""Writes /verif/MANIFEST.json from tools/props.py (kept in sync with the driver's configuration)."""
import json, sys, os
sys.path.insert(0, os.path.dirname(os.path.abspath(__file__)))
from props import PROPS
LEVEL_TEXT = {
 "C08": ("exploration", "Seeded histories of compile/scan/save/load under perturbed heap layout, junk fill, chunked reads and write faults; differential oracle (loaded == original, image byte-identical across layouts and saves). Evidence over the explored rule sets and fault positions, not a proof.", "§5.C08"),
 "C09": ("exploration", "Seeded search over thread interleavings with every context switch decided by the simulator (basic-block granularity), plus shared-state invariants that do not depend on the interleaving being hit. Sampled, replayable by seed.", "§5.C09"),
 "C10": ("exploration", "Seeded scan histories with injected outcomes on one reused scanner against a fresh-scanner reference model, with conservation invariants; failing histories are shrunk.", "§5.C10"),
 "C11": ("fault_enumeration", "For every generated rule set and flag setting, every message index k and both replies are enumerated and compared with an executable model of the protocol; rule sets themselves are sampled.", "§5.C11, Appendix A.1"),
 "C13": ("fault_enumeration", "Every non-empty subset of iterator calls answering not-ready is enumerated for partitions of up to 5 blocks (sampled above), every entry point is compared with the memory scan, file syscall failures are injected one by one.", "§5.C13"),
 "C15": ("exploration", "Expiry at every clock read of nine long-running workloads under a simulated clock (exhaustive per workload up to a bound), check density measured in executed basic blocks across geometric scales, limit warnings and a boundary table. Workloads are a fixed set, not all rule shapes.", "§5.C15"),
 "C16": ("fault_enumeration", "A fixed set of 29 API scenarios; thorough enumerates every allocation index k in both failure modes (exhaustive over k), quick enumerates small scenarios completely and samples the rest. Each case runs in its own child under ASan+UBSan with the simulator's own leak ledger.", "§5.C16"),
 "C17": ("fault_enumeration", "Every prefix length of small saved images and every section/entry boundary of large ones (writer crash points), every single-field corruption from a fixed value set for header and buffer table, sampled relocation-entry corruptions, and a disk that fills at byte n under yr_rules_save.", "§5.C17"),
 "C18": ("exploration", "The real yara/yarac mains under the simulated scheduler on generated trees and option sets; multiset equality with single-threaded single-file runs, termination and exit status. Sampled schedules.", "§5.C18"),
 "C19": ("exploration", "Initial arena capacities from 1 byte upwards with an always-moving, poisoning realloc; behaviour and image compared with the default capacity; growth positions are sampled through the capacity choice.", "§5.C19"),
 "C20": ("exploration", "Seeded operation histories over compiler, rule set and several scanners against a three-level environment model; after every define all parties are re-checked; failing histories are shrunk.", "§5.C20, Appendix A.2"),
}
TECH = {
 "C08": "deterministic simulation: simulated stream/disk + heap layout perturbation + write-fault injection, differential oracle",
 "C09": "deterministic simulation: seeded baton scheduler over real threads (basic-block preemption), shared-state invariants",
 "C10": "deterministic simulation: seeded scan histories with injected outcomes (callback, simulated clock, not-ready), fresh-scanner reference model",
 "C11": "deterministic simulation: callback-reply fault enumeration against an executable protocol model",
 "C13": "deterministic simulation: simulated block iterator (not-ready subset enumeration) and file-syscall fault injection",
 "C15": "deterministic simulation: simulated clock (expiry at every read), work-based check density, limit-warning negotiation",
 "C16": "deterministic simulation: allocation-failure enumeration (every k, two modes) with leak ledger and sanitizers",
 "C17": "deterministic simulation: simulated disk crash points (every prefix), field corruption, disk-full injection",
 "C18": "deterministic simulation: real CLI main under seeded scheduler, simulated directory order and output sinks",
 "C19": "deterministic simulation: arena capacity seam + always-moving realloc, differential oracle",
 "C20": "deterministic simulation: seeded multi-party operation histories against a three-level environment model",
}
m = json.load(open("/verif/MANIFEST.json"))
checks = []
engines = {}
for pid in sorted(PROPS):
    cfg = PROPS[pid]; cat, text, ref = LEVEL_TEXT[pid]
    checks.append({"property_id": pid, "quick_cmd": "./check %s quick" % pid, "thorough_cmd": "./check %s thorough" % pid,
                   "evidence_file": "/verif/evidence/%s.json" % pid, "replay_cmd_template": "./check --replay {path}", "engine": cfg["engine"],
                   "level_claimed": {"category": cat, "text": text, "design_ref": ref},
                   "level_note": "; ".join(cfg.get("assumptions", [])) + "; real code: libyara (+cli for C18 and the command-line parts of C17 and C20) rebuilt from /repo's working tree with ASan+UBSan; simulated: " + ", ".join(cfg["components"]["stub"]),
                   "technique": TECH[pid]})
    e = engines.setdefault(cfg["engine"], {"name": cfg["engine"], "path": "/verif/engines/%s.cc" % cfg["engine"], "serves_properties": [], "kind_free_text": ""})
    e["serves_properties"].append(pid)
    # further parts of a check may run in another engine (C17 and C20 have a command-line part in sim_cli)
    for part in cfg.get("parts", []):
        pe = part.get("engine")
        if pe and pe != cfg["engine"]:
            e2 = engines.setdefault(pe, {"name": pe, "path": "/verif/engines/%s.cc" % pe, "serves_properties": [], "kind_free_text": ""})
            if pid not in e2["serves_properties"]: e2["serves_properties"].append(pid)
KIND = {"sim_alloc": "allocation-failure enumeration under forked children", "sim_persist": "simulated disk/stream/heap under save, load and compile", "sim_blocks": "simulated block iterator and file syscalls",
        "sim_protocol": "callback reply plans vs protocol model", "sim_history": "operation histories vs reference models", "sim_clock": "simulated clock and limit negotiation",
        "sim_threads": "baton scheduler over library scanner threads", "sim_cli": "baton scheduler under the real yara/yarac mains"}
for k, e in engines.items(): e["kind_free_text"] = KIND.get(k, "")
m["engines"] = list(engines.values())
m["checks"] = checks
m["hooks"]["source_commits"] = []
m["notes"] = "Deterministic simulation with fault injection (DESIGN.md). No source hook in /repo: seams are link-time symbol redirection on objects rebuilt from /repo's working tree, preemption points are compiler instrumentation. /repo carries separate `fix:` commits for genuine defects (known_findings.json, status fixed); open findings are printed as KNOWN-FINDING lines."
json.dump(m, open("/verif/MANIFEST.json", "w"), indent=1)
print("manifest with", len(checks), "checks")
