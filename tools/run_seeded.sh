#!/bin/sh
# run_seeded.sh [tier] : applies every seeded change to /repo in turn, runs the quick check of its property
# (and, with ALL=1, every other check too), undoes the change, and writes seeded/RESULTS.md
T="${1:-quick}"; OUT=/verif/seeded/RESULTS.md
echo "| seeded change | property | check exit | new violation signatures | example |" > $OUT
echo "|---|---|---|---|---|" >> $OUT
for d in /verif/seeded/*/; do
  id=$(basename $d); prop=$(echo $id | cut -c1-3)
  git -C /repo apply $d/patch.diff || { echo "| $id | $prop | patch does not apply | | |" >> $OUT; continue; }
  cd /verif && ./check $prop $T > /tmp/seeded.$id.out 2>&1; rc=$?
  git -C /repo checkout -- .
  n=$(grep -c "^VIOLATION" /tmp/seeded.$id.out)
  ex=$(grep "^VIOLATION" /tmp/seeded.$id.out | head -1 | sed 's/.*class=\([^ ]*\) sig=\(.*\) count=.*/\1: \2/' | cut -c1-110 | tr '|' '/')
  echo "| $id | $prop | $rc | $n | $ex |" >> $OUT
  echo "$id rc=$rc n=$n"
done
