#!/usr/bin/env python3
"""Offline helper (never run by a check): builds /verif/known_findings.json from
signature collections produced by tools/collect_sigs.py plus the hand-written
entries below.  Each entry is one root cause; `signatures` are exact signatures
or fnmatch patterns ('*').  The checks only READ the resulting file."""
import json, sys, collections

def two(chain):
    return "<-".join(chain.split("<-")[:2])

def c16_patterns(path):
    """Two families stay patterns (the same root cause is reached from dozens of failing allocations): lexer state
    lost on failure, and module code answering a failed allocation with undefined.  Everything else is listed by its
    exact signature (failing-allocation chain AND leaked-allocation / crash chain), so that a new way of leaking an
    object that is already leaked somewhere else is still a new violation."""
    sigs = json.load(open(path))
    pats = collections.OrderedDict()
    for sig in sigs:
        p = sig.split("|"); k = p[0]
        if k == "leak" and any(x in p[2] for x in ("leaked@yara_yy", "leaked@hex_yy", "leaked@re_yy", "leaked@yr_re_ast_create<-yr_parse_re_string", "leaked@yr_lex_parse_rules_fd", "leaked@_yr_compiler_default_include_callback")):
            pat = "leak|*|leaked@" + two(p[2][7:]) + "*"
        elif k == "silent": pat = "silent|*|fail@" + two(p[2][5:]) + "*"
        elif k == "wrong-code": pat = "|".join(p[:3]) + "|*"
        else: pat = sig
        pats[pat] = pats.get(pat, 0) + 1
    return list(pats)

C16_GROUPS = [
 ("KF-C16-01", "allocation failure while the rule/hex/regex lexer is being set up or is running loses lexer state: flex buffers, the scanner object, token strings, the half-built regex AST, and - for yr_compiler_add_fd / include files - the buffer the file was read into are never freed (and re_yylex then dereferences a missing buffer)",
  lambda p: any(x in p for x in ("leaked@yara_yy", "leaked@hex_yy", "leaked@re_yy", "leaked@yr_re_ast_create<-yr_parse_re_string", "crash|asan:SEGV@re_yylex", "leaked@yr_lex_parse_rules_fd", "leaked@_yr_compiler_default_include_callback"))),
 ("KF-C16-02", "yr_compiler_add_string / add_fd / add_file return a non-zero error count without invoking the error callback when the failing allocation hits before/outside the parser (namespace, file-name stack, lexer creation)",
  lambda p: p.startswith("wrong-code|step=yr_compiler_add_") and "|rc=errors-undiagnosed" in p),
 ("KF-C16-03", "parser dereferences NULL after a failed allocation (base64 string nodes, expression type check)",
  lambda p: "crash|asan:SEGV@_yr_modified_base64_encode" in p or "crash|asan:SEGV@yr_parser_check_types" in p),
 ("KF-C16-04", "object.c: yr_object_copy / array and dictionary insertion leak the partially built object or leave a dictionary entry with a NULL key (later NULL dereference in lookups and in any walker of the module tree)",
  lambda p: any(x in p for x in ("leaked@yr_object_create<-yr_object_copy", "leaked@yr_object_structure_set_member<-yr_object_copy", "leaked@yr_object_array_set_item", "crash|asan:SEGV@yr_object_dict_get_item", "crash|asan:SEGV@walk"))),
 ("KF-C16-05", "VM: NULL dereference in yr_execute_code / pe.imphash() after a failed arena or buffer allocation, and the imphash buffer leak",
  lambda p: any(x in p for x in ("crash|asan:SEGV@yr_execute_code", "crash|asan:SEGV@imphash", "leaked@imphash"))),
 ("KF-C16-06", "vendored authenticode parser: NULL dereference (outstring_func, parse_oneline_string) and leaks of certificates / countersignatures / byte arrays when one of its allocations fails",
  lambda p: any(x in p for x in ("outstring_func", "parse_oneline_string", "leaked@certificate_new", "leaked@parse_signer_chain", "leaked@pkcs9_countersig_new", "leaked@byte_array_init"))),
 ("KF-C16-07", "module loaders lose the string already stored in an object when a later allocation of the same load fails (yr_object_set_string value leaked)",
  lambda p: "leaked@yr_object_set_string<-" in p),
 ("KF-C16-08", "module code answers a failed allocation with an undefined / partial value: the scan returns success with a result different from the fault-free one (silent wrong result)",
  lambda p: p.startswith("silent|")),
 ("KF-C16-09", "smaller leaks on error paths: atom tree nodes (_yr_atoms_choose), hash module cache entries, pe ordinal names, the automaton bitmask on a failed realloc",
  lambda p: any(x in p for x in ("leaked@_yr_atoms_choose", "leaked@add_to_cache", "leaked@ord_lookup", "leaked@yr_ac_compile"))),
]

STATIC = [
 {"id": "KF-C17-01", "property": "C17", "status": "open", "signatures": ["corrupt|field=table.size|outcome=abort-in-loader|assert", "corrupt|field=table.size|outcome=abort-in-loader|asan:*", "corrupt|field=table.size|outcome=crash-after-load|*", "corrupt|field=table.size|outcome=loaded-different"],
  "what": "a buffer-table `size` field that disagrees with the file is not detected: section bodies and relocation entries are then misparsed and the loader aborts on an assert, crashes, or returns rules that crash or misbehave when used (no checksum / size cross-check in the format)"},
 {"id": "KF-C17-02", "property": "C17", "status": "open", "signatures": ["corrupt|field=reloc.buffer_id|outcome=*"],
  "what": "relocation entries are only bounds-checked against their own buffer: an entry redirected to another buffer/offset makes the loader patch the wrong word (assert in yr_arena_ref_to_ptr, or rules that crash when scanned)"},
 {"id": "KF-C17-03", "property": "C17", "status": "open", "signatures": ["corrupt|field=hdr.num_buffers|outcome=abort-in-loader|assert", "corrupt|field=hdr.num_buffers|outcome=abort-in-loader|asan:SEGV", "corrupt|field=hdr.num_buffers|outcome=abort-in-loader|asan:heap-buffer-overflow", "corrupt|field=hdr.num_buffers|outcome=crash-after-load|*", "corrupt|field=hdr.num_buffers|outcome=loaded-different"],
  "what": "a num_buffers smaller than the writer's is accepted: later sections are read as relocation entries and the loader aborts on an assert (or crashes) instead of returning an error"},
 {"id": "KF-C08-01", "property": "C08", "status": "open", "signatures": ["history=define-string-then-save|*"],
  "what": "yr_rules_define_string_variable followed by yr_rules_save*: the external's relocatable slot points to strdup memory outside the arena and save aborts on assert(found) (arena.c) instead of writing the value"},
 {"id": "KF-C10-01", "property": "C10", "status": "open", "signatures": ["history|*|*|file-truncated-during-evaluation"],
  "what": "a memory fault on the scanned data during condition evaluation (mapped file truncated by another process: SIGBUS) leaves yr_execute_code through siglongjmp: its modules are not unloaded and its stack, object arena and iterator notebook are not freed. The scan returns ERROR_COULD_NOT_MAP_FILE, but the next scans on the same scanner get no import messages, see the previous file's module values (or crash in a module function that follows a pointer into the unmapped file), and the scanner leaks on destroy"},
 {"id": "KF-C13-01", "property": "C13", "status": "open", "signatures": ["interrupt|re-iteration|success-with-different-verdict"],
  "what": "not-ready reported during the re-iteration performed by rule evaluation (uintN(), hash.*, math.*, module loads) is not propagated: the scan returns success with possibly different verdicts (scanner.c never looks at iterator->last_error after yr_execute_code; docs/capi.rst tells iterator authors not to do this)"},
 {"id": "KF-C15-01", "property": "C15", "status": "open", "signatures": ["time|module-loop|data|gap-scales"],
  "what": "timeout checks are counted in VM instructions: a module function with its own byte loop (math.entropy(0, filesize)) inside a rule loop makes the work between two clock reads grow with the data size, so the delay after the deadline is not bounded independently of the data"},
 {"id": "KF-C18-02", "property": "C18", "status": "open", "signatures": ["cli|*|limit-option|*"],
  "what": "`-l N` counts matches in one process-wide, unsynchronised counter: with more than one file the printed set differs from per-file invocations (and depends on the schedule with several threads)"},
]

FIXED = [
 ("C20", "8f60b71", "yr_compiler_define_string_variable(NULL) left a half-initialised externals entry (duplicate identifier, strlen(NULL) crash in yr_scanner_create)"),
 ("C10", "f8c1755", "a scan suspended by ERROR_BLOCK_NOT_READY and abandoned leaked its notebook and leaked stale matches into the next scan"),
 ("C10", "6b8bf45", "the entry point of a previously scanned executable was visible to later scans on the same scanner"),
 ("C08", "789f14f", "a failed stream write in yr_rules_save_stream left the live rule set with references instead of pointers (next scan crashed)"),
 ("C16", "da9f0cc", "yr_rules_load_stream leaked the loaded arena when yr_rules_from_arena failed"),
 ("C16", "b53c37d", "failed strdup in yr_rules_define_string_variable left a NULL string external (strlen(NULL) in the next yr_scanner_create)"),
 ("C16", "a12b35b", "yr_parser_reduce_import leaked the module object when yr_hash_table_add failed"),
 ("C16", "e87a80f", "Aho-Corasick construction leaked queued nodes on error"),
 ("C20", "026d192", "an integer external used as a primary expression kept its compile-time value as a constant (`$a at ext` ignored redefinition)"),
 ("C17", "df85c75", "every prefix of a saved rule file ending inside the relocation table was loaded successfully"),
 ("C10", "elf-fix", "elf module leaked one ELF structure per extra memory block of a scan"),
 ("C10", "e224a00", "scanner->last_error_string was never reset: a later unrelated failure on a reused scanner was attributed to the string of an earlier scan"),
 ("C20", "7920122", "an external variable named like a built-in module that is not imported (hash, time, math, ...) was destroyed at the end of the first scan: the next scan on the same scanner aborted on assert(r1.o != NULL) (`yara -d hash=1 rules dir`)"),
 ("C20", "43aa735", "the compile-time value of `a >> b` was computed with <<: `$a at (42 >> 3)` never matched although the same expression over an integer external (value unknown at compile time) did"),
 ("C20", "f24e2a3", "`-d name=<integer>` was converted with atoi(): values beyond 32 bits were truncated (`-d x=4294967396` defined 100) for yara, yarac and `yara -C -d` alike"),
 ("C18", "23bf65b", "directory scans skipped every symbolic link whose target starts with `..` (two-byte readlink buffer), although the same path scanned as a single file follows the link"),
 ("C18", "2ace7fc", "warnings and console.log lines were printed outside the output lock: with several threads they landed inside another thread's rule line, between it and its string-match lines, and inside `error scanning <file>: <reason>` messages"),
 ("C16", "edd6bde", "yr_parser_emit_pushes_for_strings ignored a failed emit (relocation-node allocation or code-buffer growth) while compiling `N of ($a*)` / `them`: compilation reported success, the saved rules carried a raw heap address"),
 ("C15", "415d3b7", "a loop over a range ending at INT64_MAX never terminated (next++ overflowed and next <= last stayed true): a scan without timeout hung, and `for all i in (MAX-1..MAX) : (i > 0)` was false"),
 ("C16", "c9ddcf9", "a compiler external definition that failed half-way left a zeroed entry in the externals table, which is the end-of-table marker: every variable defined afterwards on the same compiler was invisible and the first scan aborted on assert(r1.o != NULL)"),
 ("C20", "aac71a7", "yara ignored a rejected -d definition (unknown identifier, wrong type) unless it came last, and went on scanning with exit status 0 after `error: wrong syntax for -d`"),
 ("C16", "dd732fd", "yr_object_set_string released the old value before allocating the new one: a scanner-level string definition that failed with ERROR_INSUFFICIENT_MEMORY left the variable undefined instead of unchanged"),
 ("C20", "88be514", "yr_scanner_define_string_variable(scanner, id, NULL) crashed in strlen(NULL) where the compiler and rule-set levels return ERROR_INVALID_ARGUMENT"),
 ("C16", "6304e98", "the parser ignored the result of 13 code-emitting calls (N of / N% of / in / at / not / defined / set markers / all-any-none, and the anonymous `$` of a for-of body): when the code buffer could not grow at that instruction compilation reported success with the instruction missing (assertions in yr_execute_code, ERROR_INTERNAL_FATAL_ERROR from every scan)"),
 ("C16", "8815d6e", "NULL dereference (strncmp) in yr_parser_emit_pushes_for_rules over a rule whose declaration had failed half-way for lack of memory"),
 ("C08", "c8fe739", "yr_rules_save ignored the result of fclose: a write error that surfaces only at flush time (disk full, buffered stdio) was reported as ERROR_SUCCESS for a file that does not load"),
 ("C13", "math-empty-fix", "math.mode() / math.count(b) / math.percentage(b) were undefined for an empty file scanned from a path or descriptor (its block has no data pointer) but defined for the same zero bytes scanned from memory"),
 ("C18", "dirmode-exit-fix", "directory / scan-list mode: a per-file scan error was printed by the scanning thread but never reached main's result, so `yara` exited 0 although an error was reported"),
 ("C18", "cli-culprit-fix", "yara CLI printed `string \"$x\" in rule \"r\" caused could not open file` for an unreadable file after an earlier file on the same thread had hit a limit"),
]

def main():
    entries = []
    pats = c16_patterns(sys.argv[1]) if len(sys.argv) > 1 else []
    used = set()
    for kid, what, pred in C16_GROUPS:
        mine = [p for p in pats if pred(p) and p not in used]
        used.update(mine)
        if mine:
            entries.append({"id": kid, "property": "C16", "status": "open", "signatures": sorted(mine), "what": what})
    rest = [p for p in pats if p not in used]
    if rest:
        print("UNGROUPED C16 patterns:", rest, file=sys.stderr)
    entries += STATIC
    import subprocess
    log = subprocess.run(["git", "-C", "/repo", "log", "--format=%h %s"], stdout=subprocess.PIPE, text=True).stdout.splitlines()
    for prop, commit, what in FIXED:
        c = commit
        if commit == "elf-fix":
            c = next((l.split()[0] for l in log if "elf module leaked" in l), commit)
        if commit == "math-empty-fix":
            c = next((l.split()[0] for l in log if "undefined for an empty file" in l), commit)
        if commit == "dirmode-exit-fix":
            c = next((l.split()[0] for l in log if "exited 0 after per-file scan errors" in l), commit)
        if commit == "cli-culprit-fix":
            c = next((l.split()[0] for l in log if "yara CLI blamed" in l), commit)
        entries.append({"id": "FX-%s-%s" % (prop, c), "property": prop, "status": "fixed", "commit": c, "what": what, "line": "fixed: property=%s %s %s" % (prop, c, what)})
    json.dump({"version": 1, "entries": entries}, open("/verif/known_findings.json", "w"), indent=1)
    print(len(entries), "entries written")

if __name__ == "__main__":
    main()
