// sim_persist — the simulated disk / stream / heap under save, load and compile.
//   --mode c17 : every crash point (prefix length) of a saved rule file and every
//                single-field corruption of header / buffer table / relocation entries
//   --mode c08 : save/load round trip under stream chunking, heap layout and junk,
//                op histories (save twice, define-then-save), write faults
//   --mode c19 : initial arena capacity x always-moving realloc vs default capacity
// DESIGN.md §5.C17, §5.C08, §5.C19.
#include "engine.h"
#include "rulelab.h"
#include <unistd.h>

static const char* PE_TINY = "tiny";
static const char* ELF_S = "elf_with_imports";

// ------------------------------------------------------------ batch isolate --
typedef std::function<std::string(size_t)> ItemFn;
typedef std::function<void(size_t, const std::string*, const IsoResult*)> SinkFn;   // out==NULL: the child died in this item
static void isolate_batch(size_t n, const ItemFn& fn, const SinkFn& sink, int timeout_s = 300) {
  size_t start = 0;
  while (start < n) {
    IsoResult r = sim_isolate([&] {
      for (size_t i = start; i < n; i++) {
        iso_emit("B " + std::to_string(i) + "\n");
        std::string o = fn(i);
        for (auto& c : o) if (c == '\n') c = '\x01';
        iso_emit("R " + std::to_string(i) + " " + o + "\n");
      }
    }, timeout_s);
    size_t p = 0; long begun = -1, last_done = (long) start - 1;
    const std::string& t = r.out;
    while (p < t.size()) {
      size_t e = t.find('\n', p); if (e == std::string::npos) break;   // incomplete last line: ignore
      if (t[p] == 'B') begun = atol(t.c_str() + p + 2);
      else if (t[p] == 'R') {
        long i = atol(t.c_str() + p + 2); size_t sp = t.find(' ', p + 2);
        std::string o = t.substr(sp + 1, e - sp - 1);
        for (auto& c : o) if (c == '\x01') c = '\n';
        sink((size_t) i, &o, nullptr); last_done = i;
      }
      p = e + 1;
    }
    if (r.kind == 0 && last_done == (long) n - 1) return;
    long died_at = begun > last_done ? begun : last_done + 1;
    if (died_at >= (long) n) return;
    sink((size_t) died_at, nullptr, &r);
    start = (size_t) died_at + 1;
  }
}

// ---------------------------------------------------------------- helpers ---
static std::vector<std::string> case_buffers(const LabCase& lc, bool with_samples) {
  std::vector<std::string> b = lc.buffers;
  if (with_samples) { b.push_back(corpus_file(PE_TINY)); b.push_back(corpus_file(ELF_S)); }
  return b;
}
static std::string scan_traces(YR_RULES* rules, const std::vector<std::string>& bufs) {
  std::string all;
  for (auto& b : bufs) {
    Recorder rec;
    int rc = yr_rules_scan_mem(rules, (const uint8_t*) b.data(), b.size(), 0, recorder_callback, &rec, 0);
    all += rec.text; all += "rc="; all += yr_error_name(rc); all += "\n==\n";
  }
  return all;
}
static bool uses_modules(const LabCase& lc) { for (auto& s : lc.spec.sources) if (s.second.find("import \"") != std::string::npos) return true; return false; }

static J spec_json(const CompileSpec& s) {
  J j = J::obj(); J src = J::arr();
  for (auto& x : s.sources) { J e = J::arr(); e.push(x.first); e.push(x.second); src.push(e); }
  j.set("sources", src);
  J ex = J::arr();
  for (auto& e : s.externals) { J x = J::obj(); x.set("id", e.id); x.set("type", std::string(1, (char) e.type)); x.set("i", e.i); x.set("f", e.f); x.set("s", e.s); ex.push(x); }
  j.set("externals", ex);
  return j;
}
static CompileSpec spec_from_json(const J& j) {
  CompileSpec s;
  for (size_t i = 0; i < j["sources"].size(); i++) s.sources.push_back({j["sources"][i][0].str(), j["sources"][i][1].str()});
  for (size_t i = 0; i < j["externals"].size(); i++) { const J& x = j["externals"][i]; s.externals.push_back({x["id"].str(), x["type"].str()[0], x["i"].num(), x["f"].dbl(), x["s"].str()}); }
  return s;
}
static J bufs_json(const std::vector<std::string>& b) { J a = J::arr(); for (auto& x : b) a.push(x.size() > 20000 ? std::string("@corpus:") + (x == corpus_file(PE_TINY) ? PE_TINY : ELF_S) : hex_enc(x)); return a; }
static std::vector<std::string> bufs_from_json(const J& a) { std::vector<std::string> b; for (size_t i = 0; i < a.size(); i++) { const std::string& s = a[i].str(); if (s.rfind("@corpus:", 0) == 0) b.push_back(corpus_file(s.substr(8))); else b.push_back(hex_dec(s)); } return b; }

// layout of a saved image
struct Layout { size_t hdr = 6, table_end = 0, bodies_end = 0, total = 0; int nbuf = 0; std::vector<std::pair<size_t, size_t>> bodies; };
static Layout layout_of(const std::string& img) {
  Layout l; l.total = img.size(); l.nbuf = (unsigned char) img[5]; l.table_end = 6 + 12 * l.nbuf;
  size_t off = l.table_end;
  for (int i = 0; i < l.nbuf; i++) { uint32_t sz; memcpy(&sz, img.data() + 6 + 12 * i + 8, 4); l.bodies.push_back({off, sz}); off += sz; }
  l.bodies_end = off; return l;
}
static std::string region_of(const Layout& l, size_t n) {
  if (n < l.hdr) return "header";
  if (n < l.table_end) return "buffer-table";
  if (n < l.bodies_end) return "buffer-bodies";
  return "relocation-table";
}

// ======================================================================= C17 =
struct C17Case { CompileSpec spec; std::vector<std::string> bufs; std::string image; std::string ref_traces; };

static std::string c17_try_load(const C17Case& c, const std::string& image, bool scan_after) {
  // returns "rejected:<code>" | "touched" | "loaded:same" | "loaded:different"
  YR_RULES* loaded = (YR_RULES*) (uintptr_t) 0x5151;
  int rc = load_rules(image, &loaded, 0);
  if (rc != ERROR_SUCCESS) { if (loaded != (YR_RULES*) (uintptr_t) 0x5151) return "touched"; return std::string("rejected:") + yr_error_name(rc); }
  std::string res = "loaded";
  if (scan_after) { std::string t = scan_traces(loaded, c.bufs); res += t == c.ref_traces ? ":same" : ":different"; }
  yr_rules_destroy(loaded);
  return res;
}

struct Corruption { std::string field; size_t off; int width; uint64_t value; std::string what; };
static std::vector<Corruption> c17_corruptions(const std::string& img, Rng& rng, bool thorough) {
  std::vector<Corruption> v; Layout l = layout_of(img);
  for (int i = 0; i < 4; i++) { v.push_back({"hdr.magic", (size_t) i, 1, (uint64_t) ((unsigned char) img[i] ^ 0x20), "flip case bit"}); v.push_back({"hdr.magic", (size_t) i, 1, 0, "zero"}); }
  for (int x : {0, 1, 2, 10, 20, 21, 22, 23, 24, 127, 255}) if (x != (unsigned char) img[4]) v.push_back({"hdr.version", 4, 1, (uint64_t) x, "set"});
  for (int x : {0, 1, 11, 13, 15, 16, 17, 255}) if (x != l.nbuf) v.push_back({"hdr.num_buffers", 5, 1, (uint64_t) x, "set"});
  for (int i = 0; i < l.nbuf; i++) {
    size_t eo = 6 + 12 * i; uint64_t off; uint32_t sz; memcpy(&off, img.data() + eo, 8); memcpy(&sz, img.data() + eo + 8, 4);
    uint32_t next = i + 1 < l.nbuf ? (uint32_t) l.bodies[i + 1].second : 0;
    for (uint64_t x : {(uint64_t) 0, off + 1, off - 1, off + 8, off - 8, (uint64_t) 0xffffffffULL, (uint64_t) ~0ULL}) if (x != off) v.push_back({"table.offset", eo, 8, x, "buffer " + std::to_string(i)});
    for (uint64_t x : {(uint64_t) 0, (uint64_t) sz + 1, (uint64_t) sz - 1, (uint64_t) sz + 8, (uint64_t) sz - 8, (uint64_t) sz + 16, (uint64_t) next, (uint64_t) 0xffffffffULL, (uint64_t) 0x7fffffffULL})
      if ((uint32_t) x != sz) v.push_back({"table.size", eo + 8, 4, x & 0xffffffffULL, "buffer " + std::to_string(i)});
  }
  size_t nrel = (l.total - l.bodies_end) / 8;
  int want = thorough ? 24 : 8;
  for (int k = 0; k < want && nrel; k++) {
    size_t e = l.bodies_end + 8 * rng.below(nrel);
    uint32_t bid; memcpy(&bid, img.data() + e, 4);
    uint32_t used = bid < (uint32_t) l.nbuf ? (uint32_t) l.bodies[bid].second : 0;
    switch (k % 6) {
      case 0: v.push_back({"reloc.buffer_id", e, 4, (uint64_t) l.nbuf, "= num_buffers"}); break;
      case 1: v.push_back({"reloc.buffer_id", e, 4, 0xffffffffULL, "= 2^32-1"}); break;
      case 2: v.push_back({"reloc.offset", e + 4, 4, (uint64_t) used - 7, "= used-7"}); break;
      case 3: v.push_back({"reloc.offset", e + 4, 4, (uint64_t) used, "= used"}); break;
      case 4: v.push_back({"reloc.offset", e + 4, 4, 0xffffffffULL, "= 2^32-1"}); break;
      case 5: v.push_back({"reloc.buffer_id", e, 4, (uint64_t) ((bid + 1) % (l.nbuf ? l.nbuf : 1)), "= other buffer"}); break;
    }
  }
  return v;
}
static std::string apply_corruption(const std::string& img, const Corruption& c) { std::string o = img; memcpy(&o[c.off], &c.value, c.width); return o; }

static std::vector<size_t> c17_cut_points(const std::string& img, Rng& rng, bool thorough) {
  std::vector<size_t> v; Layout l = layout_of(img); std::set<size_t> s;
  if (img.size() <= (thorough ? 16384u : 6000u)) { for (size_t n = 0; n < img.size(); n++) s.insert(n); }
  else {
    for (size_t n = 0; n <= l.table_end + 8 && n < img.size(); n++) s.insert(n);
    for (auto& b : l.bodies) for (long d = -8; d <= 8; d++) { long n = (long) b.first + d; if (n >= 0 && (size_t) n < img.size()) s.insert(n); }
    for (long d = -8; d <= 8; d++) { long n = (long) l.bodies_end + d; if (n >= 0 && (size_t) n < img.size()) s.insert(n); }
    for (size_t n = l.bodies_end; n < img.size(); n += 8) { s.insert(n); if (thorough) { s.insert(n + 1 < img.size() ? n + 1 : n); s.insert(n + 4 < img.size() ? n + 4 : n); s.insert(n + 7 < img.size() ? n + 7 : n); } else if (rng.chance(1, 4)) s.insert(n + 1 + rng.below(7) < img.size() ? n + 1 + rng.below(7) : n); }
    for (long d = 1; d <= 16; d++) if (img.size() >= (size_t) d) s.insert(img.size() - d);
    int extra = thorough ? 2000 : 300;
    for (int i = 0; i < extra; i++) s.insert(rng.below(img.size()));
  }
  v.assign(s.begin(), s.end()); return v;
}

static bool c17_prepare(C17Case& c, const LabCase& lc) {
  c.spec = lc.spec; c.bufs = case_buffers(lc, uses_modules(lc));
  CompileResult cr = compile_rules(c.spec);
  if (!cr.rules) return false;
  c.ref_traces = scan_traces(cr.rules, c.bufs);
  bool ok = save_rules(cr.rules, c.image);
  yr_rules_destroy(cr.rules);
  return ok;
}
static J c17_replay(const C17Case& c, const std::string& kind, size_t n, const Corruption* co) {
  J r = J::obj(); r.set("engine", "sim_persist"); r.set("mode", "c17"); r.set("spec", spec_json(c.spec)); r.set("buffers", bufs_json(c.bufs)); r.set("kind", kind);
  if (kind == "trunc" || kind == "ftrunc" || !co) r.set("n", (int64_t) n);
  else { r.set("field", co->field); r.set("off", (int64_t) co->off); r.set("width", co->width); r.set("value", (int64_t) co->value); r.set("what", co->what); }
  return r;
}

// judge one truncation / corruption outcome; returns "" if fine
static std::string c17_judge_trunc(const Layout& l, size_t n, const std::string* out, const IsoResult* crash, std::string& klass, std::string& detail) {
  std::string region = region_of(l, n);
  if (!out) { klass = "crash-in-loader"; detail = crash->err.substr(0, 2500); return "trunc|region=" + region + "|outcome=" + sim_crash_signature(*crash); }
  if (out->rfind("rejected:", 0) == 0) return "";
  if (*out == "touched") { klass = "rules-touched"; detail = "load failed but *rules was modified"; return "trunc|region=" + region + "|outcome=rules-touched"; }
  klass = "truncated-file-loaded"; detail = "a prefix of " + std::to_string(n) + " of " + std::to_string(l.total) + " bytes was loaded successfully (" + *out + ")";
  return "trunc|region=" + region + "|outcome=load-success";
}
static std::string c17_judge_corrupt(const Corruption& co, const std::string* out, const IsoResult* crash, std::string& klass, std::string& detail) {
  if (!out) {
    std::string cs = sim_crash_signature(*crash);
    bool in_loader = crash->out.find("L\n") == std::string::npos;
    klass = in_loader ? "abort-in-loader" : "crash-after-load"; detail = co.field + " " + co.what + " -> " + std::to_string(co.value) + " [child kind=" + std::to_string(crash->kind) + " code=" + std::to_string(crash->code) + "]\n" + crash->err.substr(0, 2000);
    // keep the signature coarse: field + phase + kind of death
    std::string kind = cs.substr(0, cs.find('@'));
    if (kind.rfind("assert:", 0) == 0) kind = "assert";
    return "corrupt|field=" + co.field + "|outcome=" + klass + "|" + kind;
  }
  if (out->rfind("rejected:", 0) == 0) return "";
  // magic and format version say what the rest of the file means: a file that carries another value there is rejected,
  // whether or not the remaining bytes happen to parse
  if (*out == "loaded:same" && (co.field == "hdr.magic" || co.field == "hdr.version")) { klass = "inconsistent-header-accepted"; detail = co.field + " " + co.what + " -> " + std::to_string(co.value) + ": the file was loaded"; return "corrupt|field=" + co.field + "|outcome=loaded"; }
  if (*out == "loaded:same") return "";
  if (*out == "touched") { klass = "rules-touched"; detail = ""; return "corrupt|field=" + co.field + "|outcome=rules-touched"; }
  klass = "corrupt-file-loaded-misbehaves"; detail = co.field + " " + co.what + " -> " + std::to_string(co.value) + ": loaded rules behave differently";
  return "corrupt|field=" + co.field + "|outcome=loaded-different";
}

static void c17_run_case(C17Case& c, Rng& rng, bool thorough, Stats& st, int case_idx) {
  Layout l = layout_of(c.image);
  st.c["max.image_bytes"] = std::max<int64_t>(st.c["max.image_bytes"], c.image.size());
  // --- truncation (crash points of the writer)
  std::vector<size_t> cuts = c17_cut_points(c.image, rng, thorough);
  bool exhaustive = cuts.size() == c.image.size();
  if (exhaustive) st.c["cases_with_every_prefix"]++;
  std::set<std::string> reported;
  isolate_batch(cuts.size(), [&](size_t i) { return c17_try_load(c, c.image.substr(0, cuts[i]), false); },
    [&](size_t i, const std::string* out, const IsoResult* crash) {
      st.runs++; st.c["faults_fired.crash_at_byte_n"]++;
      std::string region = region_of(l, cuts[i]);
      st.c["cuts." + region]++;
      Hash64 h; h.add("trunc"); h.addu(case_idx); h.addu(cuts[i]); st.hash(h.h);
      std::string klass, detail; std::string sig = c17_judge_trunc(l, cuts[i], out, crash, klass, detail);
      if (out) st.c["trunc_outcome." + out->substr(0, out->find(':'))]++;
      if (!sig.empty()) { st.c["viol." + klass]++; if (reported.insert(sig).second) emit_violation("C17", klass, sig, detail, c17_replay(c, "trunc", cuts[i], nullptr)); }
    });
  // --- the same crash points through yr_rules_load(path): boundaries of every section and the whole last section
  {
    std::set<size_t> fs;
    for (auto& b : l.bodies) for (long d = -12; d <= 12; d++) { long n = (long) b.first + d; if (n >= 0 && (size_t) n < c.image.size()) fs.insert(n); }
    for (long d = -40; d <= 12; d++) { long n = (long) l.bodies_end + d; if (n >= 0 && (size_t) n < c.image.size()) fs.insert(n); }
    for (size_t n = 0; n < l.table_end + 4 && n < c.image.size(); n++) fs.insert(n);
    for (int k = 0; k < (thorough ? 200 : 40); k++) fs.insert(rng.below(c.image.size()));
    std::vector<size_t> fcuts(fs.begin(), fs.end());
    std::string path = tmp_dir() + "/c17-cut." + std::to_string((int) getpid()) + ".yarc";
    isolate_batch(fcuts.size(), [&](size_t i) {
        write_file(path, c.image.substr(0, fcuts[i]));
        YR_RULES* loaded = (YR_RULES*) (uintptr_t) 0x5151; int rc = yr_rules_load(path.c_str(), &loaded);
        if (rc != ERROR_SUCCESS) return loaded != (YR_RULES*) (uintptr_t) 0x5151 ? std::string("touched") : std::string("rejected:") + yr_error_name(rc);
        yr_rules_destroy(loaded); return std::string("loaded"); },
      [&](size_t i, const std::string* out, const IsoResult* crash) {
        st.runs++; st.c["faults_fired.file_crash_at_byte_n"]++;
        Hash64 h; h.add("ftrunc"); h.addu(case_idx); h.addu(fcuts[i]); st.hash(h.h);
        std::string klass, detail; std::string sig = c17_judge_trunc(l, fcuts[i], out, crash, klass, detail);
        if (!sig.empty()) { sig = "file-" + sig; st.c["viol." + klass]++; if (reported.insert(sig).second) emit_violation("C17", klass, sig, "through yr_rules_load(path): " + detail, c17_replay(c, "ftrunc", fcuts[i], nullptr)); }
      });
    unlink(path.c_str());
  }
  // --- single-field corruptions, one forked child each (the loader may abort)
  std::vector<Corruption> cos = c17_corruptions(c.image, rng, thorough);
  for (size_t i = 0; i < cos.size(); i++) {
    std::string img = apply_corruption(c.image, cos[i]);
    std::string res; bool have = false;
    IsoResult r = sim_isolate([&] {
      YR_RULES* loaded = (YR_RULES*) (uintptr_t) 0x5151;
      int rc = load_rules(img, &loaded, 0);
      if (rc != ERROR_SUCCESS) { iso_emit(loaded != (YR_RULES*) (uintptr_t) 0x5151 ? "touched\n" : std::string("rejected:") + yr_error_name(rc) + "\n"); return; }
      iso_emit("L\n");
      std::string t = scan_traces(loaded, c.bufs);
      yr_rules_destroy(loaded);
      iso_emit(t == c.ref_traces ? "loaded:same\n" : "loaded:different\n");
    }, 15);
    size_t p = 0; while (p < r.out.size()) { size_t e = r.out.find('\n', p); if (e == std::string::npos) break; std::string ln = r.out.substr(p, e - p); if (ln != "L") { res = ln; have = true; } p = e + 1; }
    st.runs++; st.c["faults_fired.field_corruption"]++; st.c["corrupt." + cos[i].field]++;
    Hash64 h; h.add("corrupt"); h.addu(case_idx); h.addu(cos[i].off); h.addu(cos[i].value); st.hash(h.h);
    std::string klass, detail; std::string sig = c17_judge_corrupt(cos[i], (r.kind == 0 && have) ? &res : nullptr, &r, klass, detail);
    if (r.kind == 0 && have) st.c["corrupt_outcome." + res]++; else st.c["corrupt_outcome.died"]++;
    if (!sig.empty()) { st.c["viol." + klass]++; if (reported.insert(sig).second) emit_violation("C17", klass, sig, detail, c17_replay(c, "corrupt", 0, &cos[i])); }
  }
  if (st.samples.size() < 3) { J s = J::obj(); s.set("rules", c.spec.sources[0].second.substr(0, 400)); s.set("image_bytes", (int64_t) c.image.size()); s.set("cut_points", (int64_t) cuts.size()); s.set("every_prefix", exhaustive); s.set("corruptions", (int64_t) cos.size()); s.set("example_corruption", cos.empty() ? J() : J(cos[cos.size() / 2].field + " " + cos[cos.size() / 2].what)); st.sample(s); }
}

// end-to-end: yr_rules_save(path) onto a disk that fills at byte n, then yr_rules_load(path).
// Everything runs in a child: a failed save leaves the original rule set unusable on the
// current tree (a C08 finding), which must not take the worker down.
static void c17_disk_full_point(const C17Case& c, size_t n, std::string& save_rc, std::string& res, IsoResult& r, bool over_existing = false) {
  std::string path = tmp_dir() + "/c17-full." + std::to_string((int) getpid()) + ".yarc";
  unlink(path.c_str());
  // an older, complete compiled file may already be at the path (same section layout, other bytes): what the interrupted
  // save leaves behind must not be "new head + old tail" that loads
  if (over_existing) { std::string old = c.image; for (size_t i = 64; i < old.size(); i++) if (isalpha((unsigned char) old[i])) old[i] ^= 0x20; write_file(path, old); }
  r = sim_isolate([&] {
    CompileResult cr = compile_rules(c.spec);
    if (!cr.rules) { iso_emit("S compile-failed\n"); return; }
    sim_fs_reset(); g_fs.fwrite_fail_after_bytes = (int64_t) n;
    int src = yr_rules_save(cr.rules, path.c_str());
    sim_fs_reset();
    iso_emit(std::string("S ") + yr_error_name(src) + "\n");
    YR_RULES* loaded = NULL; int rc = yr_rules_load(path.c_str(), &loaded);
    if (rc != ERROR_SUCCESS) { iso_emit(std::string("rejected:") + yr_error_name(rc) + "\n"); return; }
    std::string t = scan_traces(loaded, c.bufs); yr_rules_destroy(loaded);
    iso_emit(t == c.ref_traces ? "loaded:same\n" : "loaded:different\n");
  }, 60);
  unlink(path.c_str());
  size_t p = 0; while (p < r.out.size()) { size_t e = r.out.find('\n', p); if (e == std::string::npos) break; std::string ln = r.out.substr(p, e - p); if (ln.rfind("S ", 0) == 0) save_rc = ln.substr(2); else res = ln; p = e + 1; }
}
static std::string c17_judge_diskfull(const Layout& l, size_t n, const std::string& save_rc, const std::string& res, const IsoResult& r, std::string& klass, std::string& detail) {
  std::string region = region_of(l, n);
  if (r.kind != 0 && save_rc.empty()) return "";          // died before the save returned: not this property's business
  if (r.kind != 0) { klass = "crash-after-disk-full"; detail = r.err.substr(0, 1500); std::string cs = sim_crash_signature(r); return "diskfull|region=" + region + "|outcome=" + cs.substr(0, cs.find('@')); }
  if (res.rfind("loaded", 0) == 0) { klass = "truncated-file-loaded"; detail = "disk filled after " + std::to_string(n) + " of " + std::to_string(l.total) + " bytes; yr_rules_save returned " + save_rc + "; yr_rules_load accepted the file (" + res + ")"; return "diskfull|region=" + region + "|outcome=load-success"; }
  return "";
}
static void c17_disk_full(C17Case& c, Rng& rng, bool thorough, Stats& st, int case_idx) {
  int points = thorough ? 40 : 8;
  Layout l = layout_of(c.image);
  std::set<std::string> reported;
  for (int k = 0; k < points; k++) {
    size_t n = k == 0 ? 0 : k == 1 ? c.image.size() - 1 : k == 2 ? l.bodies_end + 4 : rng.below(c.image.size());
    std::string save_rc, res; IsoResult r;
    bool over = (k % 2) == 1;
    c17_disk_full_point(c, n, save_rc, res, r, over);
    st.runs++; st.c["faults_fired.disk_full_at_byte_n"]++; if (over) st.c["faults_fired.disk_full_while_overwriting_an_older_file"]++;
    st.c["save_on_full_disk." + (save_rc.empty() ? std::string("died") : save_rc)]++;
    Hash64 h; h.add("full"); h.addu(case_idx); h.addu(n); st.hash(h.h);
    std::string klass, detail; std::string sig = c17_judge_diskfull(l, n, save_rc, res, r, klass, detail);
    if (!sig.empty()) { if (over) sig += "|over-existing-file"; st.c["viol." + klass]++; if (reported.insert(sig).second) { J rp = c17_replay(c, "diskfull", n, nullptr); rp.set("over_existing", over); emit_violation("C17", klass, sig, detail + (over ? " [an older complete file was at the path]" : ""), rp); } }
  }
}


// a TRANSIENT write fault (one write call fails, the stream works again afterwards - ENOSPC that clears, a flaky user
// stream): whatever ends up in the stream is an incomplete file and must not load into rules that misbehave
static void c17_transient_point(const C17Case& c, int64_t k, std::string& save_rc, std::string& res, IsoResult& r, int64_t* total_calls = nullptr) {
  r = sim_isolate([&] {
    CompileResult cr = compile_rules(c.spec);
    if (!cr.rules) { iso_emit("S compile-failed\n"); return; }
    MemStream ms; ms.fail_write_once_at = k; YR_STREAM s = ms.stream();
    int src = yr_rules_save_stream(cr.rules, &s);
    iso_emit(std::string("S ") + yr_error_name(src) + " calls=" + std::to_string(ms.write_calls) + "\n");
    if (src == ERROR_SUCCESS && k < ms.write_calls) { iso_emit("save-reported-success-despite-failed-write\n"); return; }
    YR_RULES* loaded = NULL; int rc = load_rules(ms.data, &loaded, 0);
    if (rc != ERROR_SUCCESS) { iso_emit(std::string("rejected:") + yr_error_name(rc) + "\n"); return; }
    iso_emit("L\n");
    std::string t = scan_traces(loaded, c.bufs); yr_rules_destroy(loaded);
    iso_emit(t == c.ref_traces ? "loaded:same\n" : "loaded:different\n");
  }, 60);
  size_t p = 0; while (p < r.out.size()) { size_t e = r.out.find('\n', p); if (e == std::string::npos) break; std::string ln = r.out.substr(p, e - p); if (ln.rfind("S ", 0) == 0) { save_rc = ln.substr(2, ln.find(" calls=") - 2); if (total_calls) *total_calls = atoll(ln.substr(ln.find("calls=") + 6).c_str()); } else if (ln != "L") res = ln; else res = "loaded-then-died"; p = e + 1; }
}
static std::string c17_judge_transient(int64_t k, int64_t total, const std::string& save_rc, const std::string& res, const IsoResult& r, std::string& klass, std::string& detail) {
  std::string where = k == 0 ? "header" : (total > 0 && k >= total - 2) ? "last-writes" : "middle";
  if (r.kind != 0 && save_rc.empty()) return "";
  std::string at = "write call " + std::to_string(k) + " failed once (yr_rules_save_stream returned " + save_rc + "): ";
  if (res == "save-reported-success-despite-failed-write") { klass = "failed-write-unreported"; detail = at + "success reported"; return "transient|" + where + "|save-returned-success"; }
  if (r.kind != 0 || res == "loaded-then-died") { klass = "crash-after-load"; detail = at + "the stream's content loaded and the rules then crashed: " + r.err.substr(0, 1200); std::string cs = sim_crash_signature(r); return "transient|" + where + "|outcome=crash-after-load"; }
  if (res == "loaded:different") { klass = "incomplete-file-loaded"; detail = at + "the stream's content loaded successfully into rules that behave differently"; return "transient|" + where + "|outcome=loaded-different"; }
  if (res == "loaded:same") { klass = "incomplete-file-loaded"; detail = at + "the incomplete stream content was accepted by yr_rules_load_stream (it happens to behave like the original)"; return "transient|" + where + "|outcome=load-success"; }
  return "";
}
static void c17_transient(C17Case& c, Rng& rng, bool thorough, Stats& st, int case_idx) {
  std::string save_rc, res; IsoResult r; int64_t total = 0;
  c17_transient_point(c, 1LL << 40, save_rc, res, r, &total);     // fault-free: learns the number of write calls
  if (total <= 0) return;
  std::set<int64_t> ks{0, 1, total - 1, total - 2, total / 2};
  int extra = thorough ? 60 : 10; for (int i = 0; i < extra; i++) ks.insert((int64_t) rng.below((uint64_t) total));
  std::set<std::string> reported;
  for (int64_t k : ks) {
    if (k < 0 || k >= total) continue;
    save_rc.clear(); res.clear(); int64_t t2 = 0;
    c17_transient_point(c, k, save_rc, res, r, &t2);
    st.runs++; st.c["faults_fired.transient_write_fault"]++; st.c["transient_write." + (res.empty() ? std::string("died") : res.substr(0, res.find(':') == std::string::npos ? res.size() : res.find(':')))]++;
    Hash64 h; h.add("transient"); h.addu(case_idx); h.addu(k); st.hash(h.h);
    std::string klass, detail; std::string sig = c17_judge_transient(k, total, save_rc, res, r, klass, detail);
    if (!sig.empty()) { st.c["viol." + klass]++; if (reported.insert(sig).second) emit_violation("C17", klass, sig, detail, c17_replay(c, "transient", (size_t) k, nullptr)); }
  }
}

// ======================================================================= C08 =
struct C08Out { std::string image, image_again, image_gen2, traces_before, traces_after_save, traces_loaded, traces_gen2; int save_rc = 0, load_rc = 0, gen2_save_rc = -1, gen2_load_rc = -1; int64_t writes = 0; };

static std::string c08_roundtrip(const LabCase& lc, const std::vector<std::string>& bufs, uint8_t junk, size_t pad, size_t chunk, C08Out& o) {
  // returns "" or an error text (harness-level)
  sim_alloc_reset(); g_alloc.junk_byte = junk; g_alloc.pad = pad; g_stack_junk = junk;
  CompileResult cr = compile_rules(lc.spec);
  g_stack_junk = 0;
  if (!cr.rules) return "compile failed: " + cr.messages;
  poison_slack(cr.rules, true);
  o.traces_before = scan_traces(cr.rules, bufs);
  poison_slack(cr.rules, false);
  MemStream ms; YR_STREAM s = ms.stream();
  o.save_rc = yr_rules_save_stream(cr.rules, &s); o.image = ms.data; o.writes = ms.writes;
  o.traces_after_save = scan_traces(cr.rules, bufs);
  MemStream ms2; YR_STREAM s2 = ms2.stream();
  yr_rules_save_stream(cr.rules, &s2); o.image_again = ms2.data;
  YR_RULES* loaded = NULL;
  g_alloc.junk_byte = (uint8_t) (junk ^ 0xff);
  o.load_rc = load_rules(o.image, &loaded, chunk);
  yr_rules_destroy(cr.rules);         // the original is gone (and poisoned by ASan) before the copy is used
  if (o.load_rc == ERROR_SUCCESS) {
    poison_slack(loaded, true);
    o.traces_loaded = scan_traces(loaded, bufs);
    poison_slack(loaded, false);
    // second generation: the docs say loaded rules "can not be saved"; an error is therefore accepted,
    // but a save that claims success has to produce the same image and working rules
    MemStream g2; YR_STREAM sg = g2.stream();
    o.gen2_save_rc = yr_rules_save_stream(loaded, &sg); o.image_gen2 = g2.data;
    yr_rules_destroy(loaded);
    if (o.gen2_save_rc == ERROR_SUCCESS) {
      YR_RULES* l2 = NULL; o.gen2_load_rc = load_rules(o.image_gen2, &l2, 0);
      if (o.gen2_load_rc == ERROR_SUCCESS) { poison_slack(l2, true); o.traces_gen2 = scan_traces(l2, bufs); poison_slack(l2, false); yr_rules_destroy(l2); }
    }
  }
  sim_alloc_reset();
  return "";
}

static J c08_replay(const LabCase& lc, const std::vector<std::string>& bufs, const std::string& kind, int64_t a, int64_t b, int64_t c) {
  J r = J::obj(); r.set("engine", "sim_persist"); r.set("mode", "c08"); r.set("spec", spec_json(lc.spec)); r.set("buffers", bufs_json(bufs)); r.set("kind", kind); r.set("a", a); r.set("b", b); r.set("c", c); return r;
}

// one C08 case, in a forked child per sub-check so that a crash is attributed
static void c08_run_case(const LabCase& lc, Rng& rng, bool thorough, Stats& st, int idx, const std::string& only_kind = "", int64_t ra = 0, int64_t rb = 0, int64_t rc_ = 0) {
  std::vector<std::string> bufs = case_buffers(lc, uses_modules(lc));
  std::set<std::string> reported;
  auto report = [&](const std::string& klass, const std::string& sig, const std::string& detail, const J& rp) { st.c["viol." + klass]++; if (reported.insert(sig).second) emit_violation("C08", klass, sig, detail, rp); };
  // (1) round trip under two heap layouts + chunked reads
  if (only_kind.empty() || only_kind == "roundtrip") {
    uint8_t j1 = only_kind.empty() ? (uint8_t) rng.range(1, 255) : (uint8_t) ra, j2 = (uint8_t) (j1 * 7 + 13);
    size_t pad1 = 0, pad2 = only_kind.empty() ? 8 * (size_t) rng.range(1, 64) : (size_t) rb;
    static const size_t chunks[] = {0, 1, 2, 3, 5, 7, 8, 12, 13, 64, 4096};
    size_t chunk = only_kind.empty() ? chunks[rng.below(sizeof chunks / sizeof chunks[0])] : (size_t) rc_;
    std::string res;
    IsoResult r = sim_isolate([&] {
      C08Out a, b;
      std::string e = c08_roundtrip(lc, bufs, j1, pad1, chunk, a); if (!e.empty()) { iso_emit("harness:" + e + "\n"); return; }
      e = c08_roundtrip(lc, bufs, j2, pad2, 0, b); if (!e.empty()) { iso_emit("harness:" + e + "\n"); return; }
      std::string out;
      if (a.save_rc != ERROR_SUCCESS) out += std::string("save-failed:") + yr_error_name(a.save_rc) + ";";
      if (a.load_rc != ERROR_SUCCESS) out += std::string("load-failed:") + yr_error_name(a.load_rc) + ";";
      if (a.traces_after_save != a.traces_before) out += "original-changed-by-save;";
      if (a.load_rc == ERROR_SUCCESS && a.traces_loaded != a.traces_before) out += "loaded-differs;";
      if (a.image != a.image_again) out += "second-save-differs;";
      if (a.image != b.image) out += "image-depends-on-heap;";
      if (a.gen2_save_rc == ERROR_SUCCESS) {
        if (a.image_gen2 != a.image) out += "resaved-image-differs;";
        else if (a.gen2_load_rc != ERROR_SUCCESS) out += "resaved-image-does-not-load;";
        else if (a.traces_gen2 != a.traces_before) out += "resaved-rules-differ;";
      }
      if (out.empty()) out = "ok";
      iso_emit(out + " writes=" + std::to_string(a.writes) + " bytes=" + std::to_string(a.image.size()) + "\n");
    }, 120);
    st.runs++; st.c["roundtrips"]++; if (chunk) st.c["faults_fired.chunked_read"]++; st.c["faults_fired.heap_layout_perturbed"]++;
    Hash64 h; h.add("rt"); h.addu(idx); h.addu(chunk); h.addu(j1); st.hash(h.h);
    res = r.out.substr(0, r.out.find('\n'));
    J rp = c08_replay(lc, bufs, "roundtrip", j1, pad2, chunk);
    if (r.kind != 0) report("crash", "roundtrip|" + sim_crash_signature(r), r.err.substr(0, 2500), rp);
    else if (res.rfind("harness:", 0) == 0) emit_note("c08: " + res);
    else if (res.rfind("ok", 0) != 0) { std::string what = res.substr(0, res.find(' ')); report("roundtrip-mismatch", "roundtrip|" + what, "chunk=" + std::to_string(chunk) + " " + res, rp); }
    if (st.samples.size() < 3) { J s = J::obj(); s.set("case", lc.desc); s.set("chunk", (int64_t) chunk); s.set("junk", j1); s.set("pad2", (int64_t) pad2); s.set("result", res); st.sample(s); }
  }
  // (1b) sweep of rule counts: whatever the number of relocation entries, the saved image must load back
  if (only_kind.empty() || only_kind == "sweep") {
    int base = only_kind.empty() ? (int) rng.range(1, 300) : (int) ra, span = only_kind.empty() ? (thorough ? 24 : 4) : 1;
    for (int nr = base; nr < base + span; nr++) {
      CompileSpec cs; std::string src; for (int k = 0; k < nr; k++) src += "rule s" + std::to_string(k) + " { strings: $a = \"sw_" + std::to_string(k) + "_x\" condition: $a }\n"; cs.sources.push_back({"", src});
      std::string res;
      IsoResult r = sim_isolate([&] { CompileResult cr = compile_rules(cs); if (!cr.rules) { iso_emit("harness\n"); return; } std::string img; int rc; save_rules(cr.rules, img, &rc); YR_RULES* l = NULL; int lrc = rc == ERROR_SUCCESS ? load_rules(img, &l, 0) : -1; yr_rules_destroy(cr.rules); if (l) yr_rules_destroy(l);
        iso_emit(rc != ERROR_SUCCESS ? std::string("save-failed:") + yr_error_name(rc) + "\n" : lrc != ERROR_SUCCESS ? std::string("own-image-rejected:") + yr_error_name(lrc) + "\n" : "ok\n"); }, 60);
      st.runs++; st.c["sweep_rule_counts"]++; Hash64 h; h.add("sweep"); h.addu(nr); st.hash(h.h);
      res = r.out.substr(0, r.out.find('\n'));
      J rp = c08_replay(lc, bufs, "sweep", nr, 0, 0);
      if (r.kind != 0) report("crash", "sweep|" + sim_crash_signature(r), r.err.substr(0, 2000), rp);
      else if (res != "ok" && res != "harness") report("roundtrip-mismatch", "sweep|" + res.substr(0, res.find(':')), std::to_string(nr) + " rules: " + res, rp);
    }
  }
  // (2) write fault at item n: the original must stay usable
  if (only_kind.empty() || only_kind == "writefault") {
    // count the writes of a fault-free save
    int64_t W = 0;
    { CompileResult cr = compile_rules(lc.spec); if (!cr.rules) return; MemStream ms; YR_STREAM s = ms.stream(); yr_rules_save_stream(cr.rules, &s); W = ms.writes; yr_rules_destroy(cr.rules); }
    int points = only_kind.empty() ? (thorough ? 12 : 3) : 1;
    for (int k = 0; k < points; k++) {
      int64_t n = only_kind.empty() ? (k == 0 ? 0 : k == 1 ? W - 1 : (int64_t) rng.below(W)) : ra;
      IsoResult r = sim_isolate([&] {
        CompileResult cr = compile_rules(lc.spec);
        std::string before = scan_traces(cr.rules, bufs);
        MemStream ms; ms.fail_write_after_items = n; YR_STREAM s = ms.stream();
        int rc = yr_rules_save_stream(cr.rules, &s);
        iso_emit(std::string("S ") + yr_error_name(rc) + "\n");
        std::string after = scan_traces(cr.rules, bufs);
        // and a later, fault-free save must still produce the right image
        MemStream ok; YR_STREAM s2 = ok.stream(); int rc2 = yr_rules_save_stream(cr.rules, &s2);
        yr_rules_destroy(cr.rules);
        iso_emit(after == before ? (rc2 == ERROR_SUCCESS ? "ok\n" : "resave-failed\n") : "original-changed\n");
      }, 120);
      st.runs++; st.c["faults_fired.stream_write_error"]++;
      Hash64 h; h.add("wf"); h.addu(idx); h.addu(n); st.hash(h.h);
      J rp = c08_replay(lc, bufs, "writefault", n, 0, 0);
      std::string last; { size_t p = 0; while (p < r.out.size()) { size_t e = r.out.find('\n', p); if (e == std::string::npos) break; last = r.out.substr(p, e - p); p = e + 1; } }
      // which region the failing write belonged to (2 header+table items, then bodies, then relocations)
      std::string phase = n < 1 ? "header" : "after-header";
      if (r.kind != 0) report("original-unusable-after-failed-save", "writefault|crash|" + sim_crash_signature(r).substr(0, sim_crash_signature(r).find('@')), "stream write failed at item " + std::to_string(n) + " of " + std::to_string(W) + " (" + phase + ")\n" + r.err.substr(0, 2000), rp);
      else if (last != "ok") report("original-unusable-after-failed-save", "writefault|" + last, "stream write failed at item " + std::to_string(n) + ": " + last, rp);
    }
  }
  // (3) history: rules-level defines of every type, then save + load; the loaded copy must carry the new values
  if ((only_kind.empty() && !lc.spec.externals.empty()) || only_kind == "define-save") {
    for (int variant = 0; variant < 2; variant++) {
      if (!only_kind.empty() && variant != ra) continue;
      IsoResult r = sim_isolate([&] {
        CompileResult cr = compile_rules(lc.spec);
        yr_rules_define_integer_variable(cr.rules, "ext_i", 43);
        yr_rules_define_float_variable(cr.rules, "ext_f", 9.5);
        yr_rules_define_boolean_variable(cr.rules, "ext_b", 0);
        if (variant == 1) yr_rules_define_string_variable(cr.rules, "ext_s", "no match here");
        std::string before = scan_traces(cr.rules, bufs);
        std::string image; int rc; save_rules(cr.rules, image, &rc);
        if (rc != ERROR_SUCCESS) { iso_emit(std::string("save-failed:") + yr_error_name(rc) + "\n"); yr_rules_destroy(cr.rules); return; }
        YR_RULES* l = NULL; rc = load_rules(image, &l, 0);
        yr_rules_destroy(cr.rules);
        if (rc != ERROR_SUCCESS) { iso_emit(std::string("load-failed:") + yr_error_name(rc) + "\n"); return; }
        std::string after = scan_traces(l, bufs); yr_rules_destroy(l);
        iso_emit(after == before ? "ok\n" : "loaded-differs\n");
      }, 120);
      st.runs++; st.c[variant ? "history.define_string_then_save" : "history.define_scalars_then_save"]++;
      Hash64 h; h.add("ds"); h.addu(idx); h.addu(variant); st.hash(h.h);
      J rp = c08_replay(lc, bufs, "define-save", variant, 0, 0);
      std::string res = r.out.substr(0, r.out.find('\n'));
      std::string hs = variant ? "define-string-then-save" : "define-scalars-then-save";
      if (r.kind != 0) report("crash", "history=" + hs + "|" + sim_crash_signature(r), r.err.substr(0, 2000), rp);
      else if (res != "ok") report("roundtrip-mismatch", "history=" + hs + "|" + res, res, rp);
    }
  }
  // (6) the disk fills while yr_rules_save(path) is writing and the error only surfaces when the file is closed
  // (buffered writes): a save that reports success must have produced a file that loads into equal rules
  if (only_kind.empty() || only_kind == "save-error-at-close") {
    IsoResult r = sim_isolate([&] {
      CompileResult cr = compile_rules(lc.spec); if (!cr.rules) { iso_emit("compile-failed\n"); return; }
      std::string before = scan_traces(cr.rules, bufs);
      std::string full; save_rules(cr.rules, full);
      int64_t n = only_kind.empty() ? (int64_t) (full.size() * (1 + (idx % 7)) / 8) : ra;
      std::string path = tmp_dir() + "/c08-close." + std::to_string((int) getpid()) + ".yarc"; unlink(path.c_str());
      sim_fs_reset(); g_fs.fwrite_lost_after_bytes = n;
      int src = yr_rules_save(cr.rules, path.c_str());
      sim_fs_reset();
      iso_emit("N " + std::to_string(n) + "\n");
      YR_RULES* l = NULL; int rc = yr_rules_load(path.c_str(), &l); unlink(path.c_str());
      std::string after = rc == ERROR_SUCCESS ? scan_traces(l, bufs) : std::string(); if (l) yr_rules_destroy(l);
      yr_rules_destroy(cr.rules);
      if (src != ERROR_SUCCESS) iso_emit("ok\n");                               // reported: nothing more to ask of the save
      else if (rc != ERROR_SUCCESS) iso_emit(std::string("save-reported-success-but-file-does-not-load:") + yr_error_name(rc) + "\n");
      else if (after != before) iso_emit("save-reported-success-but-loaded-rules-differ\n");
      else iso_emit("ok\n");
    }, 120);
    st.runs++; st.c["faults_fired.write_error_surfacing_at_close"]++;
    Hash64 h; h.add("sec"); h.addu(idx); st.hash(h.h);
    std::string res; int64_t n = 0; { size_t p = 0; while (p < r.out.size()) { size_t e = r.out.find('\n', p); if (e == std::string::npos) break; std::string ln = r.out.substr(p, e - p); if (ln.rfind("N ", 0) == 0) n = atoll(ln.c_str() + 2); else res = ln; p = e + 1; } }
    J rp = c08_replay(lc, bufs, "save-error-at-close", n, 0, 0);
    if (r.kind != 0) report("crash", "history=save-error-at-close|" + sim_crash_signature(r), r.err.substr(0, 2000), rp);
    else if (res != "ok") report("failed-write-unreported", "history=save-error-at-close|" + res.substr(0, res.find(':')), "the disk filled after " + std::to_string(n) + " bytes and the error surfaced at fclose: " + res, rp);
  }
  // (5) rules disabled before the save and enabled again afterwards: the original and the loaded copy, driven by the
  // same calls, must agree before and after re-enabling, and after re-enabling both must equal the untouched rules
  if (only_kind.empty() || only_kind == "disable-save-enable") {
    uint64_t pick = only_kind.empty() ? (rng.next() & 0x7fffffffffffULL) : (uint64_t) ra;
    IsoResult r = sim_isolate([&] {
      CompileResult cr = compile_rules(lc.spec); if (!cr.rules) { iso_emit("compile-failed\n"); return; }
      std::string untouched = scan_traces(cr.rules, bufs);
      auto toggle = [&](YR_RULES* rs, bool enable) { YR_RULE* rule; int k = 0, n = 0; yr_rules_foreach(rs, rule) { uint64_t hsh = sim_mix64(pick ^ (uint64_t) k * 0x9e3779b97f4a7c15ULL); k++; if (hsh % 3 != 0) continue; if (enable) yr_rule_enable(rule); else yr_rule_disable(rule); n++; } return n; };
      int nd = toggle(cr.rules, false);
      std::string orig_disabled = scan_traces(cr.rules, bufs);
      std::string image; int rc; save_rules(cr.rules, image, &rc);
      if (rc != ERROR_SUCCESS) { iso_emit(std::string("save-failed:") + yr_error_name(rc) + "\n"); yr_rules_destroy(cr.rules); return; }
      YR_RULES* l = NULL; rc = load_rules(image, &l, 0);
      if (rc != ERROR_SUCCESS) { iso_emit(std::string("load-failed:") + yr_error_name(rc) + "\n"); yr_rules_destroy(cr.rules); return; }
      std::string loaded_disabled = scan_traces(l, bufs);
      toggle(cr.rules, true); toggle(l, true);
      std::string orig_enabled = scan_traces(cr.rules, bufs), loaded_enabled = scan_traces(l, bufs);
      yr_rules_destroy(cr.rules); yr_rules_destroy(l);
      iso_emit("N " + std::to_string(nd) + "\n");
      if (loaded_disabled != orig_disabled) iso_emit("loaded-differs-while-disabled\n");
      else if (orig_enabled != untouched) iso_emit("original-differs-after-reenabling\n");
      else if (loaded_enabled != orig_enabled) iso_emit("loaded-differs-after-reenabling\n");
      else iso_emit("ok\n");
    }, 120);
    st.runs++; st.c["history.disable_save_load_enable"]++;
    Hash64 h; h.add("dse"); h.addu(idx); h.addu(pick); st.hash(h.h);
    J rp = c08_replay(lc, bufs, "disable-save-enable", (int64_t) pick, 0, 0);
    std::string res; { size_t p = 0; while (p < r.out.size()) { size_t e = r.out.find('\n', p); if (e == std::string::npos) break; std::string ln = r.out.substr(p, e - p); if (ln.rfind("N ", 0) == 0) st.c["rules_disabled_before_save"] += atoll(ln.c_str() + 2); else res = ln; p = e + 1; } }
    if (r.kind != 0) report("crash", "history=disable-save-enable|" + sim_crash_signature(r), r.err.substr(0, 2000), rp);
    else if (res != "ok") report("roundtrip-mismatch", "history=disable-save-enable|" + res, res, rp);
  }
}

// ======================================================================= C19 =
static const size_t CAPS[] = {1, 2, 3, 7, 8, 16, 24, 64, 100, 512, 4096, 65536};
static J c19_replay(const LabCase& lc, const std::vector<std::string>& bufs, size_t cap, int split) {
  J r = J::obj(); r.set("engine", "sim_persist"); r.set("mode", "c19"); r.set("spec", spec_json(lc.spec)); r.set("buffers", bufs_json(bufs)); r.set("cap", (int64_t) cap); r.set("split", split); return r;
}
// compile with a given capacity; split>0: each source is cut in two add_string calls at a rule boundary
static std::string c19_compile(const CompileSpec& spec, const std::vector<std::string>& bufs, size_t cap, int split, std::string& image, std::string& traces, int64_t* moves) {
  sim_alloc_reset(); g_arena_initial_size = cap; g_alloc.always_move = cap != 0; g_alloc.junk_byte = (uint8_t) (0x11 + cap * 3);
  CompileSpec s2 = spec;
  if (split) {
    s2.sources.clear();
    for (auto& src : spec.sources) {
      // cut before the middle "rule " (imports stay with the first half; yara remembers them per compiler)
      std::vector<size_t> starts; size_t p = 0;
      while ((p = src.second.find("\nrule ", p)) != std::string::npos) { starts.push_back(p + 1); p += 5; }
      // do not cut inside modifiers: only plain "rule" starts at line begin qualify, and only if the previous line is "}"
      std::vector<size_t> ok; for (size_t x : starts) if (x >= 2 && src.second[x - 2] == '}') ok.push_back(x);
      if (ok.size() < 1) { s2.sources.push_back(src); continue; }
      size_t cut = ok[ok.size() / 2];
      s2.sources.push_back({src.first, src.second.substr(0, cut)}); s2.sources.push_back({src.first, src.second.substr(cut)});
    }
  }
  CompileResult cr = compile_rules(s2);
  g_arena_initial_size = 0;
  if (moves) *moves = g_alloc.moves;
  if (!cr.rules) { sim_alloc_reset(); return "compile failed: " + cr.messages.substr(0, 300); }
  g_alloc.always_move = false;
  traces = scan_traces(cr.rules, bufs);
  save_rules(cr.rules, image);
  yr_rules_destroy(cr.rules);
  sim_alloc_reset();
  return "";
}
static void c19_run_case(const LabCase& lc, Rng& rng, bool thorough, Stats& st, int idx, int64_t only_cap = -1, int only_split = 0) {
  std::vector<std::string> bufs = case_buffers(lc, uses_modules(lc));
  std::string ref_image, ref_traces;
  std::string e = c19_compile(lc.spec, bufs, 0, 0, ref_image, ref_traces, nullptr);
  if (!e.empty()) { emit_note("c19 reference compile failed: " + e); return; }
  std::set<std::string> reported;
  std::vector<std::pair<size_t, int>> todo;
  if (only_cap >= 0) todo.push_back({(size_t) only_cap, only_split});
  else {
    int ncaps = thorough ? (int) (sizeof CAPS / sizeof CAPS[0]) : 4;
    std::set<size_t> chosen; chosen.insert(1);
    while ((int) chosen.size() < ncaps) chosen.insert(CAPS[rng.below(sizeof CAPS / sizeof CAPS[0])]);
    if (thorough || rng.chance(1, 3)) chosen.insert((size_t) rng.range(4, 3000));   // arbitrary capacity: growth falls anywhere
    for (size_t c : chosen) todo.push_back({c, 0});
    todo.push_back({0, 1});                                  // default capacity, sources added in halves
    todo.push_back({CAPS[rng.below(6)], 1});
  }
  for (auto& t : todo) {
    size_t cap = t.first; int split = t.second;
    IsoResult r = sim_isolate([&] {
      std::string image, traces; int64_t moves = 0;
      std::string err = c19_compile(lc.spec, bufs, cap, split, image, traces, &moves);
      if (!err.empty()) { iso_emit("compile-failed " + err + "\n"); return; }
      std::string out;
      if (traces != ref_traces) out += "behaviour-differs;";
      if (image != ref_image) out += "image-differs;";
      if (out.empty()) out = "ok";
      iso_emit(out + " moves=" + std::to_string(moves) + "\n");
    }, 180);
    st.runs++; st.c["faults_fired.arena_capacity_changed"]++;
    Hash64 h; h.add("cap"); h.addu(idx); h.addu(cap); h.addu(split); st.hash(h.h);
    std::string res = r.out.substr(0, r.out.find('\n'));
    size_t mp = res.find("moves="); if (mp != std::string::npos) { int64_t mv = atoll(res.c_str() + mp + 6); st.c["faults_fired.realloc_moved_block"] += mv; if (mv > 0) st.c["probe.runs_with_relocation"]++; }
    J rp = c19_replay(lc, bufs, cap, split);
    std::string capclass = cap == 0 ? "default" : cap < 64 ? "tiny" : cap < 4096 ? "small" : "large";
    if (r.kind != 0) { std::string cs = sim_crash_signature(r); st.c["viol.crash"]++; if (reported.insert(cs).second) emit_violation("C19", "stale-reference", "growth|" + cs, "initial capacity " + std::to_string(cap) + (split ? ", split sources" : "") + "\n" + r.err.substr(0, 2500), rp); }
    else if (res.rfind("ok", 0) != 0) { std::string what = res.substr(0, res.find(' ')); st.c["viol.mismatch"]++; std::string sig = std::string(split ? "split|" : "growth|") + what; if (reported.insert(sig).second) emit_violation("C19", "capacity-dependent-result", sig, "initial capacity " + std::to_string(cap) + " (" + capclass + ")" + (split ? ", sources added in halves" : "") + ": " + res, rp); }
    if (st.samples.size() < 3) { J s = J::obj(); s.set("case", lc.desc); s.set("capacity", (int64_t) cap); s.set("split", split); s.set("result", res); st.sample(s); }
  }
}

// ------------------------------------------------------------------- cases --
static LabCase make_case(uint64_t seed, int i, const std::string& mode, bool thorough) {
  Rng rng(sim_run_seed(seed, 1000 + i));
  if (i == 0) {   // the whole catalogue, once
    LabCase lc; GenSet all = gen_all_frags(); add_default_externals(lc.spec);
    lc.spec.sources.push_back({"", all.source() + ext_probe_rules()});
    Rng r2(7); lc.buffers.push_back("HEAD_EXTMARK " + gen_text_buffer(r2, all.plants(), 2000)); lc.buffers.push_back(""); lc.desc = "all fragments";
    return lc;
  }
  int maxr = mode == "c17" ? (i % 3 == 0 ? 14 : 5) : (i % 4 == 0 ? 24 : 8);
  return gen_labcase(rng, maxr, i % 2 == 0, i % 3 != 1, true);
}

int main(int argc, char** argv) {
  Args args(argc, argv);
  sim_symbolize((void*) &main);
  std::string cmd = args.pos.empty() ? "run" : args.pos[0];
  yr_initialize();
  Stats st;
  if (cmd == "replay") {
    J rp; if (args.pos.size() < 2 || !J::load(args.pos[1], rp)) { fprintf(stderr, "cannot read replay\n"); return 2; }
    const J& c = rp.has("replay") ? rp["replay"] : rp;
    std::string mode = c["mode"].str();
    LabCase lc; lc.spec = spec_from_json(c["spec"]); std::vector<std::string> bufs = bufs_from_json(c["buffers"]);
    // buffers in the replay already include the samples
    lc.buffers = bufs; Rng rng(1);
    if (mode == "c17") {
      C17Case cc; cc.spec = lc.spec; cc.bufs = bufs;
      CompileResult cr = compile_rules(cc.spec); if (!cr.rules) { fprintf(stderr, "replay: rules do not compile\n"); return 2; }
      cc.ref_traces = scan_traces(cr.rules, cc.bufs); save_rules(cr.rules, cc.image); yr_rules_destroy(cr.rules);
      Layout l = layout_of(cc.image);
      std::string kind = c["kind"].str(); std::string klass, detail, sig;
      if (kind == "ftrunc") {
        size_t n = (size_t) c["n"].num(); std::string path = tmp_dir() + "/c17-cut.yarc";
        isolate_batch(1, [&](size_t) { write_file(path, cc.image.substr(0, n)); YR_RULES* loaded = (YR_RULES*) (uintptr_t) 0x5151; int rc = yr_rules_load(path.c_str(), &loaded); if (rc != ERROR_SUCCESS) return loaded != (YR_RULES*) (uintptr_t) 0x5151 ? std::string("touched") : std::string("rejected:") + yr_error_name(rc); yr_rules_destroy(loaded); return std::string("loaded"); },
          [&](size_t, const std::string* out, const IsoResult* crash) { sig = c17_judge_trunc(l, n, out, crash, klass, detail); if (!sig.empty()) sig = "file-" + sig; });
        unlink(path.c_str());
      } else if (kind == "trunc") {
        size_t n = (size_t) c["n"].num();
        isolate_batch(1, [&](size_t) { return c17_try_load(cc, cc.image.substr(0, n), false); }, [&](size_t, const std::string* out, const IsoResult* crash) { sig = c17_judge_trunc(l, n, out, crash, klass, detail); });
        // what the accepted rules then do when used (detail only)
        if (!sig.empty()) isolate_batch(1, [&](size_t) { return c17_try_load(cc, cc.image.substr(0, n), true); }, [&](size_t, const std::string* out, const IsoResult* crash) { detail += out ? " [when scanned: " + *out + "]" : " [when scanned: " + sim_crash_signature(*crash) + "]"; });
      } else if (kind == "transient") {
        int64_t k = c["n"].num(); std::string save_rc, res; IsoResult r; int64_t total = 0;
        { std::string s0, r0; IsoResult i0; c17_transient_point(cc, 1LL << 40, s0, r0, i0, &total); }
        c17_transient_point(cc, k, save_rc, res, r);
        sig = c17_judge_transient(k, total, save_rc, res, r, klass, detail);
      } else if (kind == "diskfull") {
        size_t n = (size_t) c["n"].num(); std::string save_rc, res; IsoResult r;
        bool over = c["over_existing"].truthy();
        c17_disk_full_point(cc, n, save_rc, res, r, over);
        sig = c17_judge_diskfull(l, n, save_rc, res, r, klass, detail); if (!sig.empty() && over) sig += "|over-existing-file";
      } else {
        Corruption co{c["field"].str(), (size_t) c["off"].num(), (int) c["width"].num(), (uint64_t) c["value"].num(), c["what"].str()};
        std::string img = apply_corruption(cc.image, co); std::string res; bool have = false;
        IsoResult r = sim_isolate([&] { YR_RULES* loaded = (YR_RULES*) (uintptr_t) 0x5151; int rc = load_rules(img, &loaded, 0); if (rc != ERROR_SUCCESS) { iso_emit(std::string("rejected:") + yr_error_name(rc) + "\n"); return; } iso_emit("L\n"); std::string t = scan_traces(loaded, cc.bufs); yr_rules_destroy(loaded); iso_emit(t == cc.ref_traces ? "loaded:same\n" : "loaded:different\n"); }, 15);
        size_t p = 0; while (p < r.out.size()) { size_t e = r.out.find('\n', p); if (e == std::string::npos) break; std::string ln = r.out.substr(p, e - p); if (ln != "L") { res = ln; have = true; } p = e + 1; }
        sig = c17_judge_corrupt(co, (r.kind == 0 && have) ? &res : nullptr, &r, klass, detail);
      }
      if (!sig.empty()) emit_violation("C17", klass, sig, detail, c);
    } else if (mode == "c08") {
      // buffers already complete: wrap so that case_buffers() adds nothing
      LabCase l2 = lc; for (auto& s : l2.spec.sources) (void) s;
      // strip samples to avoid adding them twice
      bool mods = uses_modules(l2); if (mods && l2.buffers.size() >= 2) { l2.buffers.pop_back(); l2.buffers.pop_back(); }
      c08_run_case(l2, rng, false, st, 0, c["kind"].str(), c["a"].num(), c["b"].num(), c["c"].num());
    } else if (mode == "c19") {
      LabCase l2 = lc; bool mods = uses_modules(l2); if (mods && l2.buffers.size() >= 2) { l2.buffers.pop_back(); l2.buffers.pop_back(); }
      c19_run_case(l2, rng, false, st, 0, c["cap"].num(), (int) c["split"].num());
    }
    J done = J::obj(); done.set("t", "replayed"); emit_line(done);
    yr_finalize();
    return 0;
  }
  Shard sh = parse_shard(args);
  bool thorough = args.get("tier", "quick") == "thorough";
  uint64_t seed = args.num("seed", 1);
  std::string mode = args.get("mode", "c17");
  double budget = (double) args.num("budget", thorough ? 1200 : 60), t0 = now_s();
  int ncases = mode == "c17" ? (thorough ? 230 : 16) : mode == "c08" ? (thorough ? 4000 : 160) : (thorough ? 3000 : 96);
  ncases = (int) args.num("cases", ncases);
  for (int i = 0; i < ncases; i++) {
    if (!sh.mine(i)) continue;
    if (now_s() - t0 > budget) { st.c["stopped_by_budget"]++; break; }
    LabCase lc = make_case(seed, i, mode, thorough);
    Rng rng(sim_run_seed(seed, 5000 + i));
    if (mode == "c17") {
      C17Case c; if (!c17_prepare(c, lc)) { emit_note("c17: case does not compile: " + lc.desc); continue; }
      c17_run_case(c, rng, thorough, st, i);
      c17_disk_full(c, rng, thorough, st, i);
      c17_transient(c, rng, thorough, st, i);
    } else if (mode == "c08") { std::string onlyk = args.get("only", ""); if (onlyk.empty()) c08_run_case(lc, rng, thorough, st, i); else c08_run_case(lc, rng, thorough, st, i, onlyk, (int64_t) rng.range(1, 255), 8 * (int64_t) rng.range(1, 64), 0); }
    else c19_run_case(lc, rng, thorough, st, i);
    st.c["cases"]++;
    if (st.hashes.size() > 4000) st.flush(false);
  }
  st.flush();
  yr_finalize();
  return 0;
}
