// sim_history — operation histories over long-lived objects.
//   --mode c10 : one scanner reused for a generated history of scans with injected
//                outcomes (callback abort/error at message k, simulated-clock
//                timeout, match-limit warnings, not-ready resumed / abandoned,
//                fiber exhaustion); reference model = a fresh scanner per scan.
//   --mode c20 : compiler / rule set / several scanners issuing external-variable
//                definitions and scans in a seeded interleaving; reference model =
//                three-level environment (DESIGN.md Appendix A.2).
#include "engine.h"
#include "rulelab.h"
#include <unistd.h>

// ======================================================================= C10 =
enum Plan { P_NONE, P_ABORT, P_ERROR, P_TIMEOUT, P_TOOMANY_CONT, P_TOOMANY_ABORT, P_NR_RESUME, P_NR_ABANDON, P_MAPFAULT, P_OPENFAIL, P_NPLANS };
static const char* PLAN_NAMES[] = {"none", "abort", "error", "timeout", "toomany-continue", "toomany-abort", "notready-resume", "notready-abandon", "file-truncated-during-evaluation", "file-cannot-be-opened"};
enum BufKind { B_TEXT, B_PE, B_ELF, B_EMPTY, B_MANY, B_FIBER, B_TEXT2, B_GAPCUT, B_GAP2, B_GAP8, B_NKINDS };
static const char* BUF_NAMES[] = {"text", "pe", "elf", "empty", "many", "fiberbomb", "text2", "gap-cut-short", "gap-of-2", "gap-of-8"};
struct Op { int buf; int plan; int k; int entry; int flags; int mdata; };   // entry: 0 mem, 1 file, 2 blocks(2 parts), 3 process memory of a sleeping child

struct H10 { CompileSpec spec; std::vector<std::string> bufs; std::vector<Op> ops; };

static const char* C10_EXTRA =
  "rule many_ab { strings: $a = \"ab\" condition: #a > 3 }\n"
  "rule many_bystander { strings: $x = \"bystander\" condition: $x }\n"
  "rule refibers { strings: $r = /([a-z0-9_-]{1,32}\\.?){1,16}@example\\.com/ condition: $r }\n"
  "rule gap48 { strings: $g = /gapx.{4,8}wxyz/ $h = /gapy[0-9]{2,5}z/ condition: any of them }\n"
  "rule late_read { condition: filesize > 8192 and uint8(8192) == 0x7a and uint8(filesize - 1) == 0x7a }\n"
  "rule not_many { strings: $a = \"ab\" condition: not $a }\n"
  "rule zero_many { strings: $a = \"ab\" $x = \"bystander\" condition: #a == 0 and $x }\n";

static H10 gen_h10(Rng& rng) {
  H10 h;
  LabCase lc = gen_labcase(rng, 12, true, false, true);
  h.spec = lc.spec;
  // in a third of the histories more than 64 strings precede the limit-hitting ones (per-string bitmasks then span several words)
  std::string pad;
  // in a fifth of the histories more than 64 rules exist (per-rule bitmasks then span several words); their verdicts depend on the buffer
  if (rng.chance(1, 5)) for (int i = 0; i < 70; i++) pad += "rule manyr" + std::to_string(i) + " { condition: filesize % 7 == " + std::to_string(i % 7) + " or uint8(0) == " + std::to_string(60 + i) + " }\n";
  if (rng.chance(1, 3)) { pad = "rule padding {\n  strings:\n"; for (int i = 0; i < 70; i++) pad += "    $p" + std::to_string(i) + " = \"pad_" + std::to_string(i) + "_x\"\n"; pad += "  condition:\n    any of them\n}\n"; }
  h.spec.sources[0].second = "import \"tests\"\nimport \"pe\"\n" + h.spec.sources[0].second + pad + C10_EXTRA +
    "rule md { condition: tests.module_data == \"mdata-1\" }\nrule ep { condition: entrypoint >= 0 }\nrule fsz { condition: filesize > 1000 }\nrule pesec { condition: pe.number_of_sections > 2 }\n"
    "rule ep_low { condition: entrypoint < 100000 }\nrule pe_ep_low { condition: pe.entry_point < 100000 }\nrule pe_is { condition: pe.is_pe }\n";
  h.spec.sources[0].second = "import \"elf\"\n" + h.spec.sources[0].second + "rule elf_dyn { condition: elf.type == elf.ET_DYN }\nrule elf_ep_low { condition: elf.entry_point < 100000 }\n";
  h.bufs.resize(B_NKINDS);
  h.bufs[B_TEXT] = lc.buffers[0] + " bystander";
  h.bufs[B_PE] = corpus_file("tiny"); h.bufs[B_ELF] = corpus_file("elf_with_imports"); h.bufs[B_EMPTY] = "";
  { std::string m = "bystander "; for (int i = 0; i < 400; i++) m += "ab"; h.bufs[B_MANY] = m; }
  h.bufs[B_FIBER] = "xx " + std::string(40, 'a') + "@example.com bystander";
  h.bufs[B_TEXT2] = gen_text_buffer(rng, "alpha_text reg77ex bystander short@example.com", 300);
  // data that ends inside a bounded repeat (the fibers in flight die with their repeat counter above zero), then data
  // whose gap is just outside / just inside the range
  h.bufs[B_GAPCUT] = "zz gapy1 .... gapx12"; h.bufs[B_GAP2] = "gapx12wxyz gapy1z bystander"; h.bufs[B_GAP8] = "gapx12345678wxyz gapy12345z gapx1234wxyz";
  // one history in eight runs over a rule set without a single string (filesize, uintN, rule references, a global
  // rule in a second namespace): the per-scan cleanup must not depend on there being strings
  bool stringless = rng.chance(1, 8);
  if (stringless) {
    h.spec.sources.clear();
    h.spec.sources.push_back({"", "rule nf_big { condition: filesize > 100 }\nrule nf_ref { condition: nf_big }\nrule nf_mz { condition: uint16(0) == 0x5a4d }\nrule nf_empty { condition: filesize == 0 }\nprivate rule nf_priv { condition: filesize > 5 }\nrule nf_dep { condition: nf_priv and not nf_mz }\n"});
    h.spec.sources.push_back({"g", "global rule g_gate { condition: filesize > 30 }\nrule g_any { condition: true }\nrule g_small { condition: filesize < 400 }\n"});
  }
  // one history in thirty is long: the same scanner is used a few hundred times on regexp-heavy data (anything that
  // is budgeted per scanner lifetime instead of per scan runs out)
  bool longrun = !stringless && rng.chance(1, 30);
  int n = longrun ? 260 : (int) rng.range(3, 12);
  for (int i = 0; i < n; i++) {
    if (longrun) { static const int LR[] = {B_FIBER, B_GAPCUT, B_GAP2, B_TEXT2, B_GAP8, B_GAPCUT, B_TEXT, B_GAP8}; Op o; o.buf = LR[rng.below(8)]; o.plan = P_NONE; o.k = 0; o.entry = 0; o.flags = 3; o.mdata = 0; h.ops.push_back(o); continue; }
    Op o; o.buf = (int) rng.below(B_NKINDS); o.plan = rng.chance(2, 5) ? P_NONE : (int) rng.below(P_MAPFAULT);   // P_MAPFAULT: only in its own family, below
    if (o.plan == P_NONE && rng.chance(1, 12)) o.plan = P_OPENFAIL;   // a scan through the file / descriptor entry point that fails before any data is read
    o.k = (int) rng.below(40); o.entry = (int) rng.below(3); o.flags = (i > 0 && rng.chance(3, 4)) ? h.ops[i - 1].flags : (int) rng.below(4); o.mdata = (int) rng.below(3);
    if (o.plan == P_NR_RESUME || o.plan == P_NR_ABANDON) o.entry = 2;
    if (o.plan == P_OPENFAIL) o.entry = 1;
    else if (rng.chance(1, 14) && o.plan != P_TOOMANY_CONT && o.plan != P_TOOMANY_ABORT && o.plan != P_MAPFAULT && o.plan != P_OPENFAIL) { o.entry = 3; if (o.plan == P_TIMEOUT) o.plan = P_ERROR; }
    h.ops.push_back(o);
  }
  // one history in 16 has one scan of a mapped file that is cut short while its condition is being evaluated (after the
  // last module was loaded): a real SIGBUS inside yara's try/catch; what the NEXT scans report is what matters.
  // These histories run in a forked child: on the unchanged tree they end in stale module data and crashes.
  if (!stringless && !longrun && rng.chance(1, 16) && h.ops.size() >= 2) { Op& o = h.ops[rng.below(h.ops.size() - 1)]; o.plan = P_MAPFAULT; o.entry = 1; if (o.buf == B_EMPTY) o.buf = B_TEXT2; }
  return h;
}
static bool has_mapfault(const H10& h) { for (auto& o : h.ops) if (o.plan == P_MAPFAULT) return true; return false; }
static int count_imports(const H10& h) { std::set<std::string> mods; for (auto& src : h.spec.sources) { size_t p = 0; while ((p = src.second.find("import \"", p)) != std::string::npos) { size_t e = src.second.find('"', p + 8); mods.insert(src.second.substr(p + 8, e - p - 8)); p = e; } } return (int) mods.size(); }

struct ScanOut { std::string trace; int rc = 0; int64_t clock_reads = 0; bool fired = false; };

// a small sleeping child whose memory is scanned by the "process" entry point (one per worker, killed at exit)
#include <signal.h>
#include <sys/wait.h>
#include <sys/prctl.h>
#include <fcntl.h>
static int g_proc_child = 0;
static int proc_child() {
  if (g_proc_child > 0) return g_proc_child;
  int p = fork();
  if (p == 0) {
    // must not keep the worker's result pipe open, and must not outlive the worker
    prctl(PR_SET_PDEATHSIG, SIGKILL);
    int dn = open("/dev/null", O_RDWR); for (int fd = 0; fd < 256; fd++) if (fd != dn) { if (fd <= 2) dup2(dn, fd); else close(fd); }
    execl("/bin/sleep", "sleep", "100000", (char*) NULL); _exit(127);
  }
  g_proc_child = p; usleep(50000);
  atexit([] { if (g_proc_child > 0) { kill(g_proc_child, SIGKILL); waitpid(g_proc_child, NULL, 0); } });
  return p;
}

static const char* MDATA[] = {"", "mdata-1", "mdata-2"};

// executes op on scanner sc (subject or fresh reference); same code path for both
static ScanOut exec_op(YR_SCANNER* sc, const H10& h, const Op& o, bool reference, bool first_on_subject = false, int prev_flags = -1) {
  ScanOut out; const std::string& buf = h.bufs[o.buf];
  Recorder rec;
  if (o.mdata) { rec.module_data = MDATA[o.mdata]; rec.module_data_size = strlen(MDATA[o.mdata]); rec.module_data_for = "tests"; }
  if (o.plan == P_ABORT || o.plan == P_ERROR) { rec.reply_at = o.k; rec.reply_code = o.plan == P_ABORT ? CALLBACK_ABORT : CALLBACK_ERROR; }
  rec.too_many_reply = o.plan == P_TOOMANY_ABORT ? CALLBACK_ABORT : CALLBACK_CONTINUE;
  static const int FL[4] = {0, SCAN_FLAGS_REPORT_RULES_MATCHING, SCAN_FLAGS_REPORT_RULES_NOT_MATCHING, SCAN_FLAGS_REPORT_RULES_MATCHING | SCAN_FLAGS_REPORT_RULES_NOT_MATCHING};
  // flags and timeout are scanner settings: applied when they change (always on a fresh scanner), not re-applied
  // before every scan - re-applying would paper over a scan that leaves them modified
  if (reference || first_on_subject || o.flags != prev_flags) yr_scanner_set_flags(sc, FL[o.flags]);
  yr_scanner_set_callback(sc, recorder_callback, &rec);
  if (reference || first_on_subject) yr_scanner_set_timeout(sc, 1000);
  sim_clock_reset();
  if (o.plan == P_TIMEOUT) { g_clock.jump_at_read = 1 + o.k % 7; g_clock.jump_ns = 2000LL * 1000000000LL; }
  int rc;
  if (o.entry == 1) {
    std::string path = tmp_dir() + "/c10.scan";
    if (o.plan == P_MAPFAULT) {
      // the mapped file loses everything behind its first page while the condition is being evaluated (at the first
      // message of the evaluation phase): the read of `late_read` takes a real SIGBUS inside yara's try/catch
      std::string d = buf; if (d.size() < 3 * 4096) d.resize(3 * 4096, 'z'); write_file(path, d);
      static std::string t_path; t_path = path; static int t_left; t_left = count_imports(h);
      rec.hook = [](Recorder&, YR_SCAN_CONTEXT*, int msg, void*) { if (msg == CALLBACK_MSG_MODULE_IMPORTED && --t_left == 0) { if (truncate(t_path.c_str(), 4096)) {} } return -1; };
    } else write_file(path, buf);
    if (o.plan == P_OPENFAIL) { unlink(path.c_str()); rc = (o.k & 1) ? yr_scanner_scan_file(sc, path.c_str()) : yr_scanner_scan_fd(sc, -1); }
    else
    rc = yr_scanner_scan_file(sc, path.c_str());
  } else if (o.entry == 3) {
    rc = yr_scanner_scan_proc(sc, proc_child());
  } else if (o.entry == 2) {
    BlockIter bi; size_t cut = buf.size() / 2;
    if (buf.size() >= 2) bi.init(buf.data(), buf.size(), {{0, cut}, {cut, buf.size() - cut}}); else bi.init_single(buf.data(), buf.size());
    if (o.plan == P_NR_RESUME || o.plan == P_NR_ABANDON) bi.nr_target[o.k % ((int) bi.mb.size() + 1)] = 1;
    rc = yr_scanner_scan_mem_blocks(sc, &bi.it);
    out.fired = bi.not_ready_fired > 0;
    if (rc == ERROR_BLOCK_NOT_READY && o.plan == P_NR_RESUME) { rec.text += "--resume--\n"; rc = yr_scanner_scan_mem_blocks(sc, &bi.it); }
  } else rc = yr_scanner_scan_mem(sc, (const uint8_t*) buf.data(), buf.size());
  out.rc = rc; out.trace = rec.text; out.clock_reads = g_clock.reads;
  // what the API reports as the culprit of a failed scan is part of the observable result
  if (rc != ERROR_SUCCESS && rc != ERROR_BLOCK_NOT_READY) { YR_STRING* es = yr_scanner_last_error_string(sc); YR_RULE* er = yr_scanner_last_error_rule(sc); out.trace += std::string("last_error_string=") + (es ? es->identifier : "-") + " last_error_rule=" + (er ? er->identifier : "-") + "\n"; }
  if (rc == ERROR_SCAN_TIMEOUT || rec.too_many || (rec.reply_at >= 0 && rec.reply_at < rec.nmsgs) || (o.plan == P_MAPFAULT && rc == ERROR_COULD_NOT_MAP_FILE) || (o.plan == P_OPENFAIL && rc != ERROR_SUCCESS)) out.fired = true;
  sim_clock_reset();
  return out;
}

// conservation invariants on the public scan context after a completed scan
static std::string context_invariants(YR_SCANNER* sc) {
  if (sc->matches_notebook != NULL) return "matches_notebook-not-released";
  for (uint32_t i = 0; i < sc->rules->num_strings; i++) { if (sc->matches[i].head || sc->matches[i].count) return "match-list-not-empty"; if (sc->unconfirmed_matches[i].head) return "unconfirmed-match-list-not-empty"; }
  int n = 0; for (RE_FIBER* f = sc->re_fiber_pool.fibers.head; f; f = f->next) n++;
  if (n != sc->re_fiber_pool.fiber_count) return "fiber-pool-leak";
  return "";
}

struct Diff10 { int op = -1; std::string what, tag, detail; };

static std::string tag_of(const std::string& a, const std::string& b) {
  size_t i = 0; while (i < a.size() && i < b.size() && a[i] == b[i]) i++;
  size_t ls = a.rfind('\n', i ? i - 1 : 0); ls = ls == std::string::npos ? 0 : ls + 1;
  std::string la = a.substr(std::min(ls, a.size()), 160), lb = b.substr(std::min(ls, b.size()), 160);
  la = la.substr(0, la.find('\n')); lb = lb.substr(0, lb.find('\n'));
  auto kind = [](const std::string& l) { return l.empty() ? std::string("END") : l.substr(0, l.find(' ')); };
  auto rule = [](const std::string& l) { size_t c = l.find(':'); if (c == std::string::npos) return std::string("-"); size_t e = l.find(' ', c); std::string r = l.substr(c + 1, e == std::string::npos ? std::string::npos : e - c - 1); size_t u = r.find('_'); if (r.size() > 1 && r[0] == 'r' && isdigit((unsigned char) r[1]) && u != std::string::npos) r = r.substr(u + 1); return r; };
  if (kind(la) == kind(lb)) return kind(la) + "-content:" + rule(la);
  return kind(la) + "->" + kind(lb) + ":" + rule(la.empty() ? lb : la);
}

// runs the history; returns the first divergence (if any)
static Diff10 run_h10(const H10& h, YR_RULES* rules, Stats* st, bool destroy_check = true) {
  Diff10 d;
  size_t live0 = sim_alloc_live_count();
  uint64_t seq0 = 0; { auto l0 = sim_alloc_live(); if (!l0.empty()) seq0 = l0.back().seq; }
  YR_SCANNER* sc = NULL; if (yr_scanner_create(rules, &sc) != ERROR_SUCCESS) { d.op = 0; d.what = "harness"; d.tag = "scanner_create"; return d; }
  bool pending_abandoned = false;
  for (size_t i = 0; i < h.ops.size(); i++) {
    const Op& o = h.ops[i];
    ScanOut subj = exec_op(sc, h, o, false, i == 0, i ? h.ops[i - 1].flags : -1);
    YR_SCANNER* fresh = NULL; yr_scanner_create(rules, &fresh);
    ScanOut ref = exec_op(fresh, h, o, true);
    yr_scanner_destroy(fresh);
    if (st && o.entry == 3) { st->c["ops.process_scan"]++; if (subj.rc != ERROR_COULD_NOT_ATTACH_TO_PROCESS) st->c["probe.process_scan_attached"]++; }
    if (st) { st->c[std::string("ops.") + PLAN_NAMES[o.plan]]++; if (subj.fired) st->c[std::string("faults_fired.") + PLAN_NAMES[o.plan]]++; st->c[std::string("buf.") + BUF_NAMES[o.buf]]++; st->c["sim_time_ns"] += (subj.rc == ERROR_SCAN_TIMEOUT) ? 2000LL * 1000000000LL : 0; }
    if (subj.rc != ref.rc) { d.op = (int) i; d.what = "return-code"; d.tag = std::string(yr_error_name(ref.rc)) + "->" + yr_error_name(subj.rc); d.detail = "scan " + std::to_string(i) + " returned " + yr_error_name(subj.rc) + ", a fresh scanner " + yr_error_name(ref.rc); break; }
    if (subj.trace != ref.trace) { d.op = (int) i; d.what = "trace"; d.tag = tag_of(ref.trace, subj.trace); d.detail = "scan " + std::to_string(i) + " differs from a fresh scanner: " + d.tag; break; }
    // a scan that fails before it starts (the file cannot be opened) leaves a suspended earlier scan suspended
    pending_abandoned = subj.rc == ERROR_BLOCK_NOT_READY || (pending_abandoned && h.ops[i].plan == P_OPENFAIL && subj.rc != ERROR_SUCCESS);
    if (!pending_abandoned) { std::string inv = context_invariants(sc); if (!inv.empty()) { d.op = (int) i; d.what = "invariant"; d.tag = inv; d.detail = "after scan " + std::to_string(i) + ": " + inv; break; } }
  }
  yr_scanner_destroy(sc);
  if (d.op < 0 && destroy_check) {
    size_t live1 = sim_alloc_live_count();
    if (live1 != live0) { d.op = (int) h.ops.size() - 1; d.what = "leak"; d.tag = std::string("scanner-destroy-leaks") + (pending_abandoned ? "-pending-scan" : ""); d.detail = std::to_string((long) live1 - (long) live0) + " allocation(s) survive yr_scanner_destroy";
      auto live = sim_alloc_live(); std::map<std::string, int> ch; for (auto& r : live) if (r.seq > seq0) ch[sim_bt_chain(r.bt, 1, 3)]++;
      std::string first; for (auto& kv : ch) { d.detail += " [" + kv.first + " x" + std::to_string(kv.second) + "]"; if (first.empty()) first = kv.first; }
      d.tag += "@" + first; }
  }
  return d;
}

// seed-independent summary of a (shrunk) history: the injected outcomes and the special buffers in it
static std::string triggers10(const H10& h) {
  std::set<std::string> t;
  for (auto& o : h.ops) { if (o.plan != P_NONE) t.insert(PLAN_NAMES[o.plan]); if (o.entry == 3) t.insert("process-scan"); else if (o.buf == B_MANY || o.buf == B_FIBER) t.insert(std::string("buf:") + BUF_NAMES[o.buf]); }
  std::string s; for (auto& x : t) { if (!s.empty()) s += ","; s += x; } return s.empty() ? "plain-scans" : s;
}
static std::string shape10(const H10& h) { std::string s; for (auto& o : h.ops) { if (!s.empty()) s += ">"; s += std::string(o.entry == 3 ? "process" : BUF_NAMES[o.buf]) + ":" + PLAN_NAMES[o.plan]; } return s; }

static J h10_json(const H10& h) {
  J j = J::obj(); j.set("engine", "sim_history"); j.set("mode", "c10");
  J src = J::arr(); for (auto& x : h.spec.sources) { J e = J::arr(); e.push(x.first); e.push(x.second); src.push(e); } j.set("sources", src);
  J b = J::arr(); for (size_t i = 0; i < h.bufs.size(); i++) b.push(i == B_PE || i == B_ELF ? std::string("@") : hex_enc(h.bufs[i])); j.set("bufs", b);
  J ops = J::arr(); for (auto& o : h.ops) { J e = J::arr(); e.push(o.buf); e.push(o.plan); e.push(o.k); e.push(o.entry); e.push(o.flags); e.push(o.mdata); ops.push(e); } j.set("ops", ops);
  return j;
}
static H10 h10_from(const J& j) {
  H10 h; for (size_t i = 0; i < j["sources"].size(); i++) h.spec.sources.push_back({j["sources"][i][0].str(), j["sources"][i][1].str()});
  h.bufs.resize(B_NKINDS); for (size_t i = 0; i < j["bufs"].size() && i < B_NKINDS; i++) h.bufs[i] = j["bufs"][i].str() == "@" ? std::string() : hex_dec(j["bufs"][i].str());
  h.bufs[B_PE] = corpus_file("tiny"); h.bufs[B_ELF] = corpus_file("elf_with_imports");
  for (size_t i = 0; i < j["ops"].size(); i++) { const J& e = j["ops"][i]; Op o; o.buf = (int) e[0].num(); o.plan = (int) e[1].num(); o.k = (int) e[2].num(); o.entry = (int) e[3].num(); o.flags = (int) e[4].num(); o.mdata = (int) e[5].num(); h.ops.push_back(o); }
  return h;
}

// drop operations while the same class of divergence persists
static H10 shrink10(const H10& h0, YR_RULES* rules, const Diff10& d0) {
  H10 h = h0; h.ops.resize(d0.op + 1);
  bool progress = true; int budget = 60;
  while (progress && budget > 0) {
    progress = false;
    for (int i = (int) h.ops.size() - 2; i >= 0 && budget > 0; i--) {
      H10 t = h; t.ops.erase(t.ops.begin() + i); budget--;
      Diff10 d = run_h10(t, rules, nullptr);
      if (d.op >= 0 && d.what == d0.what && d.tag == d0.tag) { h = t; h.ops.resize(d.op + 1); progress = true; i = std::min(i, (int) h.ops.size() - 1); }
    }
  }
  // simplify the surviving ops: no injected outcome, plain text buffer, entry mem, flags both, no module data, where that keeps the divergence
  for (size_t i = 0; i < h.ops.size() && budget > 0; i++) {
    if (h.ops[i].plan != P_NONE) { H10 t = h; t.ops[i].plan = P_NONE; budget--; Diff10 d = run_h10(t, rules, nullptr); if (d.op >= 0 && d.what == d0.what && d.tag == d0.tag) h = t; }
    if (h.ops[i].buf != B_TEXT2 && h.ops[i].entry != 3) { H10 t = h; t.ops[i].buf = B_TEXT2; budget--; Diff10 d = run_h10(t, rules, nullptr); if (d.op >= 0 && d.what == d0.what && d.tag == d0.tag) h = t; }
  }
  for (size_t i = 0; i < h.ops.size() && budget > 0; i++) {
    H10 t = h; if (t.ops[i].plan != P_NR_RESUME && t.ops[i].plan != P_NR_ABANDON && t.ops[i].entry != 3) t.ops[i].entry = 0; t.ops[i].flags = 0; t.ops[i].mdata = 0; budget--;
    Diff10 d = run_h10(t, rules, nullptr); if (d.op >= 0 && d.what == d0.what && d.tag == d0.tag) h = t;
  }
  return h;
}

// ======================================================================= C20 =
struct Val { char type = 0; int64_t i = 0; double f = 0; std::string s; bool null_s = false; };
typedef std::map<std::string, Val> Env;
static const char* C20_BUFS[2] = {"HEAD_EXTMARK of_one tail", "nothing of interest in here at all"};
static const char* const* c20_bufs() { return C20_BUFS; }
// what a LITERAL quantifier gives for `N of ($a,$b,$c)` on each buffer (externals must behave like literals of the same
// type): measured once from literal twin rules, not assumed
static bool g_of_literal[5][2];
static void init_of_table() {
  std::string src; for (int n = 0; n <= 4; n++) src += "rule l" + std::to_string(n) + " { strings: $a = \"of_one\" $b = \"of_three\" $c = \"EXTMARK\" condition: " + std::to_string(n) + " of them }\n";
  YR_RULES* r = compile_simple(src);
  for (int b = 0; b < 2; b++) { Recorder rec; yr_rules_scan_mem(r, (const uint8_t*) C20_BUFS[b], strlen(C20_BUFS[b]), 0, recorder_callback, &rec, 0); for (int n = 0; n <= 4; n++) g_of_literal[n][b] = rec.text.find("\nMATCH default:l" + std::to_string(n) + " ") != std::string::npos || rec.text.rfind("MATCH default:l" + std::to_string(n) + " ", 0) == 0; }
  yr_rules_destroy(r);
}
static const char* C20_RULES =
  "rule x_int { condition: ext_i == 42 }\nrule x_int_arith { condition: ext_i * 2 + 1 == 85 }\nrule x_bool { condition: ext_b }\n"
  "rule x_float { condition: ext_f > 2.0 and ext_f < 3.0 }\nrule x_str { condition: ext_s contains \"needle\" and ext_s matches /ne+dle$/ }\n"
  "rule x_at { strings: $a = \"EXTMARK\" condition: $a at ext_off }\nrule x_in { strings: $a = \"EXTMARK\" condition: $a in (ext_off..ext_off + 2) }\n"
  "rule x_of { strings: $a = \"of_one\" $b = \"of_three\" $c = \"EXTMARK\" condition: ext_n of them }\n"
  "rule x_loop { condition: for any i in (0..ext_n) : ( i == 2 ) }\nrule x_cmp_ext { condition: ext_i > ext_off }\nrule x_str2 { condition: ext_t contains \"needle\" }\nrule x_streq { condition: ext_s == ext_t }\nrule x_modname { condition: math == 42 }\n";
static const char* C20_NAMES[] = {"x_int", "x_int_arith", "x_bool", "x_float", "x_str", "x_at", "x_in", "x_of", "x_loop", "x_cmp_ext", "x_str2", "x_streq", "x_modname", "x_q", "x_q2"};
// `math` is deliberately the name of a built-in module that the rules do not import: externals and module objects share one table inside a scanner
// ext_q and g_q2 ("ext_q" + digits) are a pair of which one name is a prefix of the other and which fall into the same
// bucket of the scanner's 64-bucket objects table (found at start-up with yara's own hash function)
static std::string g_q2 = "ext_q0";
static const char* IDS[] = {"ext_i", "ext_b", "ext_f", "ext_s", "ext_off", "ext_n", "ext_t", "math", "ext_q", g_q2.c_str()};
extern "C" uint32_t yr_hash(uint32_t seed, const void* buffer, size_t len);
static void init_prefix_pair() { uint32_t b = yr_hash(0, "ext_q", 5) % 64; for (int k = 0; k < 100000; k++) { std::string n = "ext_q" + std::to_string(k); if (yr_hash(0, n.data(), n.size()) % 64 == b) { g_q2 = n; break; } } IDS[9] = g_q2.c_str(); }
static const char ID_TYPES[] = {'i', 'b', 'f', 's', 'i', 'i', 's', 'i', 'i', 'i'};
static const int NIDS = 10;


// ---- literal twins ("externals behave in conditions like literals of the same type"): every t_* rule below is
// also compiled with each external textually replaced by a literal of its current value; the twin's verdict on the
// same buffer is the expectation.  The operators are the ones the hand-written model above does not cover.
struct TwinRule { const char* name; const char* strings; const char* cond; };
static const TwinRule TWINS[] = {
  {"t_countin", "$a = \"EXTMARK\"", "#a in (ext_off..ext_off + 20) == 1"},
  {"t_ofin",    "$a = \"of_one\" $b = \"of_three\" $c = \"EXTMARK\"", "ext_n of them in (0..ext_off + 8)"},
  {"t_ofat",    "$a = \"EXTMARK\" $b = \"of_three\"", "any of them at ext_off"},
  {"t_forof",   "$a = \"of_one\" $b = \"of_three\" $c = \"EXTMARK\"", "for ext_n of them : ( # >= 1 )"},
  {"t_enum",    "", "for any i in (ext_i, ext_off, 3) : ( i == 5 )"},
  {"t_bits",    "", "(ext_i & 0xF) ^ ext_off == 7 or (ext_i >> ext_off) == 0 or ~ext_i == -43 or (ext_off | 1) == ext_off"},
  {"t_cmp",     "", "ext_i <= ext_off or ext_i >= 100 or ext_off != 5"},
  {"t_mod",     "", "ext_i % 5 == 2 and ext_i \\ 3 == 14 or ext_off - ext_n < 2 or -ext_off == -7"},
  {"t_dbl",     "", "ext_f <= 2.5 and ext_f * 2.0 >= 5.0 or ext_f \\ 2.0 == 1.375 or ext_f + ext_off > 12.0 or -ext_f < -9.0 or ext_f != 2.5 and ext_f - 0.5 == 0.0"},
  {"t_strcmp",  "", "ext_s < ext_t or ext_s >= \"m\" and ext_t <= \"hay\""},
  {"t_strops",  "", "ext_s startswith \"hay\" or ext_s iendswith \"DLE\" or ext_t icontains \"PLAIN\" or ext_t iequals \"NO\" or ext_s endswith \"end.\" or ext_t istartswith \"XX\""},
  {"t_strre",   "", "ext_t matches /^(hay|x+) ?ne{1,2}dle/ or ext_s != ext_t and ext_s == \"\""},
  {"t_uint",    "", "uint8(ext_off) == 0x45 or uint16(ext_off + 1) == 0x5458 or int8(ext_n) == 0x44"},
  {"t_index",   "$a = \"EXTMARK\" $b = \"o\"", "@b[ext_n + 1] > ext_off or !a[ext_n + 1] == 7"},
  {"t_fsize",   "", "filesize > ext_off * 3 and filesize - ext_off >= 20"},
  {"t_bool",    "", "(ext_b and ext_off > 3) or (not ext_b and ext_n == 2)"},
  {"t_defined", "", "defined ext_i and defined ext_s and not defined uint8(ext_off + 100)"},
  {"t_neg",     "", "-ext_i < 0 and ext_i - 1 >= 41"},
  // one rule per operator and a single reference to the string: a second `at` with another offset disables the
  // fixed-offset optimisation that consumes the compile-time value of the offset expression
  {"t_at_shr",  "$a = \"EXTMARK\"", "$a at (ext_i >> 3)"},
  {"t_at_shl",  "$a = \"EXTMARK\"", "$a at (ext_off << 1) + 1"},
  {"t_at_add",  "$a = \"EXTMARK\"", "$a at ext_off + ext_n"},
  {"t_at_sub",  "$a = \"EXTMARK\"", "$a at ext_i - 37"},
  {"t_at_mul",  "$a = \"EXTMARK\"", "$a at ext_off * 2 + 1"},
  {"t_at_mod",  "$a = \"EXTMARK\"", "$a at ext_i % 37"},
  {"t_at_div",  "$a = \"EXTMARK\"", "$a at ext_i \\ 8"},
  {"t_at_or",   "$a = \"EXTMARK\"", "$a at (ext_off | 4) & 7"},
  {"t_at_xor",  "$a = \"EXTMARK\"", "$a at (ext_n ^ 7)"},
  {"t_at_not",  "$a = \"EXTMARK\"", "$a at ~ext_i + 48"},
  {"t_at_neg",  "$a = \"EXTMARK\"", "$a at -ext_i + 47"},
};
static const int NTWINS = sizeof(TWINS) / sizeof(TWINS[0]);
static std::string literal_of(const Val& v) {
  char b[64];
  if (v.type == 'i') { snprintf(b, sizeof b, "(%lld)", (long long) v.i); return b; }
  if (v.type == 'b') return v.i ? "true" : "false";
  if (v.type == 'f') { snprintf(b, sizeof b, "%.17g", v.f); std::string t = b; if (t.find('.') == std::string::npos) t += ".0"; return "(" + t + ")"; }
  std::string o = "\""; for (unsigned char c : v.s) { if (c == '"' || c == '\\') { o += '\\'; o += (char) c; } else if (c < 0x20 || c >= 0x7f) { snprintf(b, sizeof b, "\\x%02x", c); o += b; } else o += (char) c; } o += '"'; return o;
}
static std::string twin_rule_source(int k, bool literal, const Env* env, std::string* used = nullptr) {
  std::string cond = TWINS[k].cond;
  if (literal || used) {   // one pass over identifiers, so that a substituted string value is never rescanned
    std::string out; size_t p = 0;
    while (p < cond.size()) {
      if (isalpha((unsigned char) cond[p]) || cond[p] == '_') { size_t e = p; while (e < cond.size() && (isalnum((unsigned char) cond[e]) || cond[e] == '_')) e++; std::string id = cond.substr(p, e - p); auto it = env->find(id);
        if (it != env->end() && used) { *used += id; *used += '='; *used += literal_of(it->second); *used += '|'; }
        out += it == env->end() || !literal ? id : literal_of(it->second); p = e; }
      else if (cond[p] == '"') { size_t e = cond.find('"', p + 1); out += cond.substr(p, e - p + 1); p = e + 1; }
      else out += cond[p++];
    }
    cond = out;
  }
  return std::string("rule ") + TWINS[k].name + " {" + (*TWINS[k].strings ? std::string(" strings: ") + TWINS[k].strings : std::string()) + " condition: " + cond + " }\n";
}
static std::string twin_source(bool literal, const Env* env) { std::string src; for (int k = 0; k < NTWINS; k++) src += twin_rule_source(k, literal, env); return src; }
static int64_t g_twin_compiles = 0, g_twin_hits = 0;
static std::set<std::string> observed_verdicts(const std::string& trace);
// expectation for the t_* rules under `env` on buffer `buf`: each rule's literal twin, compiled alone, cached by the
// values of the externals that rule mentions
static std::set<std::string> twin_verdicts(const Env& env, int buf) {
  static std::map<std::string, bool> cache;
  std::set<std::string> m;
  for (int k = 0; k < NTWINS; k++) {
    std::string key = std::to_string(k) + "|" + std::to_string(buf) + "|"; std::string src = twin_rule_source(k, true, &env, &key);
    auto it = cache.find(key);
    if (it == cache.end()) {
      YR_RULES* r = compile_simple(src);
      if (!r) { fprintf(stderr, "harness: literal twin does not compile:\n%s\n", src.c_str()); abort(); }
      g_twin_compiles++;
      Recorder rec; const char* B = C20_BUFS[buf];
      yr_rules_scan_mem(r, (const uint8_t*) B, strlen(B), 0, recorder_callback, &rec, 0);
      yr_rules_destroy(r);
      it = cache.insert({key, observed_verdicts(rec.text).count(TWINS[k].name) > 0}).first;
    } else g_twin_hits++;
    if (it->second) m.insert(TWINS[k].name);
  }
  return m;
}
static bool model_str_ok(const std::string& s) {
  if (s.find("needle") == std::string::npos) return false;
  // /ne+dle$/ : ... n e+ d l e at the very end
  if (s.size() < 5 || s.compare(s.size() - 3, 3, "dle") != 0) return false;
  size_t p = s.size() - 3; size_t e = 0; while (p > 0 && s[p - 1] == 'e') { p--; e++; }
  return e >= 1 && p > 0 && s[p - 1] == 'n';
}
static std::set<std::string> model_verdicts(const Env& env, int buf = 0) {
  std::set<std::string> m;
  auto I = [&](const char* id) { return env.at(id).i; };
  if (I("ext_i") == 42) { m.insert("x_int"); m.insert("x_int_arith"); }
  if (I("ext_b") != 0) m.insert("x_bool");
  double f = env.at("ext_f").f; if (f > 2.0 && f < 3.0) m.insert("x_float");
  if (model_str_ok(env.at("ext_s").s)) m.insert("x_str");
  int64_t off = I("ext_off"); if (buf == 0) { if (off == 5) m.insert("x_at"); if (5 >= off && 5 <= off + 2) m.insert("x_in"); }
  int64_t n = I("ext_n"); if (n >= 0 && n <= 4 && g_of_literal[n][buf]) m.insert("x_of"); if (n >= 2) m.insert("x_loop");
  if (I("ext_i") > off) m.insert("x_cmp_ext");
  if (env.at("ext_t").s.find("needle") != std::string::npos) m.insert("x_str2");
  if (env.at("ext_s").s == env.at("ext_t").s) m.insert("x_streq");
  if (I("math") == 42) m.insert("x_modname");
  if (I("ext_q") == 42) m.insert("x_q");
  if (I(g_q2.c_str()) == 42) m.insert("x_q2");
  for (auto& t : twin_verdicts(env, buf)) m.insert(t);
  return m;
}

struct Op20 { int kind; int who; int id; char type; Val v; };
// kinds: 0 compiler.define, 1 rules.define, 2 scanner_create, 3 scanner.define, 4 scan(scanner), 5 rules-level scan, 6 save+load (continue on the copy), 7 scanner destroy
struct H20 { std::vector<Op20> pre; std::vector<Op20> ops; };

static Val gen_val(Rng& rng, char type, bool allow_null) {
  Val v; v.type = type;
  static const int64_t ints[] = {0, 1, 2, 3, 4, 5, 12, 42, 43, 7, 0x100000001LL, -1, 0x7fffffffffffffffLL, 4294967338LL};
  static const double fl[] = {0.5, 2.5, 2.75, 9.5};
  static const char* ss[] = {"hay needle", "plain", "", "xx neeedle", "needle not at end.", "ext_i", "x_int", "hay", "no"};
  if (type == 'i') v.i = ints[rng.below(14)]; else if (type == 'b') v.i = rng.below(2); else if (type == 'f') v.f = fl[rng.below(4)];
  else { if (allow_null && rng.chance(1, 8)) v.null_s = true; else v.s = ss[rng.below(9)]; }
  return v;
}
static Val gen_val_for(Rng& rng, int id, char type, bool allow_null) {
  Val v = gen_val(rng, type, allow_null);
  if (type == 'i' && id == 5) v.i = rng.below(5);          // ext_n in 0..4 (0 = "none of them", 4 = more than there are)
  if (type == 'i' && id == 4) v.i = (int64_t) rng.below(13);   // ext_off in 0..12 (ranges with huge or negative bounds are not what this model is about)
  return v;
}
static H20 gen_h20(Rng& rng) {
  H20 h;
  int npre = (int) rng.range(2, 9);
  for (int k = 0; k < npre; k++) { Op20 o; o.kind = 0; o.who = 0; o.id = (int) rng.below(NIDS); o.type = ID_TYPES[o.id]; o.v = gen_val_for(rng, o.id, o.type, true); h.pre.push_back(o); }
  int n = (int) rng.range(4, 24); int scanners = 0;
  for (int k = 0; k < n; k++) {
    Op20 o; int r = (int) rng.below(20); o.who = 0; o.id = 0; o.type = 'i';
    if (r < 5) { o.kind = 1; bool bad_id = rng.chance(1, 8); o.id = bad_id ? -1 : (int) rng.below(NIDS); bool wrong = rng.chance(1, 6); o.type = (o.id >= 0 && !wrong) ? ID_TYPES[o.id] : "ibfs"[rng.below(4)]; o.v = gen_val_for(rng, o.id, o.type, true); }
    else if (r < 8) { o.kind = 2; if (scanners >= 4) { o.kind = 5; } else scanners++; }
    else if (r < 13) { if (!scanners) { o.kind = 2; scanners++; } else { o.kind = 3; o.who = (int) rng.below(scanners); bool bad_id = rng.chance(1, 8); o.id = bad_id ? -1 : (int) rng.below(NIDS); bool wrong = rng.chance(1, 6); o.type = (o.id >= 0 && !wrong) ? ID_TYPES[o.id] : "ibfs"[rng.below(4)]; o.v = gen_val_for(rng, o.id, o.type, true); } }
    else if (r < 17) { if (!scanners) { o.kind = 5; } else { o.kind = 4; o.who = (int) rng.below(scanners); } }
    else if (r < 18) o.kind = 5;
    else if (r < 19) o.kind = 6;
    else { o.kind = 5; }
    h.ops.push_back(o);
  }
  return h;
}

static int api_define(int level, void* obj, const char* id, char type, const Val& v) {
  const char* sv = v.null_s ? NULL : v.s.c_str();
  if (level == 0) { YR_COMPILER* c = (YR_COMPILER*) obj; return type == 'i' ? yr_compiler_define_integer_variable(c, id, v.i) : type == 'b' ? yr_compiler_define_boolean_variable(c, id, (int) v.i) : type == 'f' ? yr_compiler_define_float_variable(c, id, v.f) : yr_compiler_define_string_variable(c, id, sv); }
  if (level == 1) { YR_RULES* r = (YR_RULES*) obj; return type == 'i' ? yr_rules_define_integer_variable(r, id, v.i) : type == 'b' ? yr_rules_define_boolean_variable(r, id, (int) v.i) : type == 'f' ? yr_rules_define_float_variable(r, id, v.f) : yr_rules_define_string_variable(r, id, sv); }
  YR_SCANNER* s = (YR_SCANNER*) obj; return type == 'i' ? yr_scanner_define_integer_variable(s, id, v.i) : type == 'b' ? yr_scanner_define_boolean_variable(s, id, (int) v.i) : type == 'f' ? yr_scanner_define_float_variable(s, id, v.f) : yr_scanner_define_string_variable(s, id, sv);
}
static void model_set(Env& e, const char* id, char type, const Val& v) { Val& d = e[id]; if (d.type == 'f') d.f = v.f; else if (d.type == 's') d.s = v.s; else d.i = (type == 'b' && d.type == 'b') ? (v.i != 0) : v.i; }

struct Diff20 { int op = -1; std::string what, tag, detail; };

static std::set<std::string> observed_verdicts(const std::string& trace) {
  std::set<std::string> m; size_t p = 0;
  while ((p = trace.find("MATCH default:", p)) != std::string::npos) { if (p == 0 || trace[p - 1] == '\n') { size_t s = p + 14; size_t e = trace.find(' ', s); m.insert(trace.substr(s, e - s)); } p += 5; }
  return m;
}
static std::string verdict_diff(const std::set<std::string>& exp, const std::set<std::string>& got) {
  std::string d; std::vector<const char*> names(std::begin(C20_NAMES), std::end(C20_NAMES)); for (int k = 0; k < NTWINS; k++) names.push_back(TWINS[k].name);
  for (const char* n : names) { bool e = exp.count(n), g = got.count(n); if (e != g) { if (!d.empty()) d += ","; d += std::string(n) + (e ? ":missed" : ":spurious"); } } return d;
}

static Diff20 run_h20(const H20& h, Stats* st) {
  Diff20 d; Env C;
  YR_COMPILER* comp = NULL; yr_compiler_create(&comp);
  auto fail = [&](int op, const std::string& what, const std::string& tag, const std::string& detail) { if (d.op < 0) { d.op = op; d.what = what; d.tag = tag; d.detail = detail; } };
  int opi = 0;
  for (auto& o : h.pre) {
    const char* id = IDS[o.id];
    int expect = C.count(id) ? ERROR_DUPLICATED_EXTERNAL_VARIABLE : (o.type == 's' && o.v.null_s) ? ERROR_INVALID_ARGUMENT : ERROR_SUCCESS;
    int rc = api_define(0, comp, id, o.type, o.v);
    // a define that is both a duplicate and has a NULL value may report either error: which check comes first is unspecified
    if (C.count(id) && o.type == 's' && o.v.null_s && rc == ERROR_INVALID_ARGUMENT) rc = expect;
    if (st) { st->c["ops.compiler_define"]++; if (expect != ERROR_SUCCESS) st->c[std::string("faults_fired.invalid_define.") + yr_error_name(expect)]++; }
    if (rc != expect) fail(opi, "define-rc", std::string("compiler|") + yr_error_name(expect) + "->" + yr_error_name(rc), std::string("yr_compiler_define(") + id + ") returned " + yr_error_name(rc) + ", expected " + yr_error_name(expect));
    if (rc == ERROR_SUCCESS && expect == ERROR_SUCCESS) { Val v = o.v; v.type = o.type; C[id] = v; }
    opi++;
  }
  for (int k = 0; k < NIDS; k++) if (!C.count(IDS[k])) { Val v; v.type = ID_TYPES[k]; v.i = k == 5 ? 2 : k == 4 ? 5 : 42; v.f = 2.5; v.s = "hay needle"; if (v.type == 'b') v.i = 1; api_define(0, comp, IDS[k], v.type, v); C[IDS[k]] = v; }
  if (d.op >= 0) { yr_compiler_destroy(comp); return d; }
  if (yr_compiler_add_string(comp, (std::string(C20_RULES) + "rule x_q { condition: ext_q == 42 }\nrule x_q2 { condition: " + g_q2 + " == 42 }\n" + twin_source(false, nullptr)).c_str(), NULL) != 0) { yr_compiler_destroy(comp); fail(opi, "harness", "probe rules do not compile", ""); return d; }
  YR_RULES* rules = NULL; yr_compiler_get_rules(comp, &rules); yr_compiler_destroy(comp);
  std::vector<YR_RULES*> all_rules{rules};
  Env R = C; std::vector<YR_SCANNER*> scs; std::vector<Env> S;
  int scan_no = 0;
  auto scan_check = [&](int op, YR_SCANNER* sc, const Env& env, const std::string& who) {
    Recorder rec; int rc; int bi = (scan_no++ % 3) == 2 ? 1 : 0; const char* B = C20_BUFS[bi];
    if (sc) { yr_scanner_set_callback(sc, recorder_callback, &rec); rc = yr_scanner_scan_mem(sc, (const uint8_t*) B, strlen(B)); }
    else rc = yr_rules_scan_mem(rules, (const uint8_t*) B, strlen(B), 0, recorder_callback, &rec, 0);
    if (rc != ERROR_SUCCESS) { fail(op, "scan-rc", who + "|" + yr_error_name(rc), "scan returned " + std::string(yr_error_name(rc))); return; }
    auto exp = model_verdicts(env, bi), got = observed_verdicts(rec.text);
    if (exp != got) fail(op, "verdict", verdict_diff(exp, got), who + " sees " + verdict_diff(exp, got) + " against the three-level model");
  };
  for (size_t k = 0; k < h.ops.size() && d.op < 0; k++, opi++) {
    const Op20& o = h.ops[k];
    const char* id = o.id >= 0 ? IDS[o.id] : "no_such_external";
    if (o.kind == 1) {
      int expect = (o.type == 's' && o.v.null_s) ? ERROR_INVALID_ARGUMENT : !R.count(id) ? ERROR_INVALID_ARGUMENT : R[id].type != o.type ? ERROR_INVALID_EXTERNAL_VARIABLE_TYPE : ERROR_SUCCESS;
      int rc = api_define(1, rules, id, o.type, o.v);
      if (st) { st->c["ops.rules_define"]++; if (expect != ERROR_SUCCESS) st->c[std::string("faults_fired.invalid_define.") + yr_error_name(expect)]++; }
      if (rc != expect) fail(opi, "define-rc", std::string("rules|") + yr_error_name(expect) + "->" + yr_error_name(rc), std::string("yr_rules_define(") + id + ") returned " + yr_error_name(rc) + ", expected " + yr_error_name(expect));
      else if (rc == ERROR_SUCCESS) model_set(R, id, o.type, o.v);
    } else if (o.kind == 2) {
      YR_SCANNER* sc = NULL; if (yr_scanner_create(rules, &sc) != ERROR_SUCCESS) { fail(opi, "harness", "scanner_create", ""); break; }
      scs.push_back(sc); S.push_back(R); if (st) st->c["ops.scanner_create"]++;
    } else if (o.kind == 3 && o.who < (int) scs.size()) {
      Env& e = S[o.who];
      auto cls = [](char t) { return t == 'b' ? 'i' : t; };
      // a NULL string value is rejected like at the other two levels (whichever of the applicable errors comes first)
      int expect = !e.count(id) ? ERROR_INVALID_ARGUMENT : cls(e[id].type) != cls(o.type) ? ERROR_INVALID_EXTERNAL_VARIABLE_TYPE : (o.type == 's' && o.v.null_s) ? ERROR_INVALID_ARGUMENT : ERROR_SUCCESS;
      int rc = api_define(2, scs[o.who], id, o.type, o.v);
      if (o.type == 's' && o.v.null_s && (rc == ERROR_INVALID_ARGUMENT || rc == ERROR_INVALID_EXTERNAL_VARIABLE_TYPE) && expect != ERROR_SUCCESS) rc = expect;
      if (st) { st->c["ops.scanner_define"]++; if (expect != ERROR_SUCCESS) st->c[std::string("faults_fired.invalid_define.") + yr_error_name(expect)]++; }
      if (rc != expect) fail(opi, "define-rc", std::string("scanner|") + yr_error_name(expect) + "->" + yr_error_name(rc), std::string("yr_scanner_define(") + id + ") returned " + yr_error_name(rc) + ", expected " + yr_error_name(expect));
      else if (rc == ERROR_SUCCESS) model_set(e, id, o.type, o.v);
    } else if (o.kind == 4 && o.who < (int) scs.size()) { if (st) st->c["ops.scanner_scan"]++; scan_check(opi, scs[o.who], S[o.who], "scanner"); }
    else if (o.kind == 5) { if (st) st->c["ops.rules_scan"]++; scan_check(opi, NULL, R, "rules-level-scan"); }
    else if (o.kind == 6) {
      // only while no rules-level string define has happened (that history is a C08 finding: save asserts)
      bool malloc_string = false; { YR_EXTERNAL_VARIABLE* e = rules->ext_vars_table; while (e && !EXTERNAL_VARIABLE_IS_NULL(e)) { if (e->type == EXTERNAL_VARIABLE_TYPE_MALLOC_STRING) malloc_string = true; e++; } }
      if (malloc_string) continue;
      std::string image; if (!save_rules(rules, image)) { fail(opi, "harness", "save failed", ""); break; }
      YR_RULES* l = NULL; if (load_rules(image, &l) != ERROR_SUCCESS) { fail(opi, "harness", "load failed", ""); break; }
      all_rules.push_back(l); rules = l; if (st) st->c["ops.save_load"]++;
      // every existing scanner keeps its own rules; a scan of each must still agree with its environment
    }
    // cross-check after every mutation: nobody else was affected
    if (o.kind == 1 || o.kind == 3) { for (size_t s = 0; s < scs.size() && d.op < 0; s++) if (scs[s]->rules == rules || true) scan_check(opi, scs[s], S[s], o.kind == 3 && (int) s != o.who ? "other-scanner" : "scanner"); if (d.op < 0) scan_check(opi, NULL, R, "rules-level-scan"); }
  }
  for (auto s : scs) yr_scanner_destroy(s);
  for (auto r : all_rules) yr_rules_destroy(r);
  return d;
}

static std::string shape20(const H20& h, int upto) {
  static const char* K[] = {"cdef", "rdef", "mk", "sdef", "scan", "rscan", "saveload", "rm"};
  std::string s; int i = 0;
  for (auto& o : h.pre) { if (i++ > upto) break; s += std::string("cdef(") + IDS[o.id] + (o.v.null_s ? ",NULL" : "") + ")>"; }
  for (auto& o : h.ops) { if (i++ > upto) break; s += K[o.kind]; if (o.kind == 1 || o.kind == 3) s += std::string("(") + (o.id >= 0 ? IDS[o.id] : "?") + ":" + o.type + ")"; s += ">"; }
  return s;
}
static J op20_json(const Op20& o) { J e = J::arr(); e.push(o.kind); e.push(o.who); e.push(o.id); e.push(std::string(1, o.type)); e.push(o.v.i); e.push(o.v.f); e.push(o.v.s); e.push(o.v.null_s); return e; }
static Op20 op20_from(const J& e) { Op20 o; o.kind = (int) e[0].num(); o.who = (int) e[1].num(); o.id = (int) e[2].num(); o.type = e[3].str()[0]; o.v.type = o.type; o.v.i = e[4].num(); o.v.f = e[5].dbl(); o.v.s = e[6].str(); o.v.null_s = e[7].truthy(); return o; }
static J h20_json(const H20& h) { J j = J::obj(); j.set("engine", "sim_history"); j.set("mode", "c20"); J p = J::arr(); for (auto& o : h.pre) p.push(op20_json(o)); j.set("pre", p); J q = J::arr(); for (auto& o : h.ops) q.push(op20_json(o)); j.set("ops", q); return j; }
static H20 h20_from(const J& j) { H20 h; for (size_t i = 0; i < j["pre"].size(); i++) h.pre.push_back(op20_from(j["pre"][i])); for (size_t i = 0; i < j["ops"].size(); i++) h.ops.push_back(op20_from(j["ops"][i])); return h; }

static H20 shrink20(const H20& h0, const Diff20& d0) {
  H20 h = h0; int budget = 80; bool progress = true;
  auto same = [&](const H20& t) { Diff20 d = run_h20(t, nullptr); return d.op >= 0 && d.what == d0.what && d.tag == d0.tag; };
  // cut after the failing op
  { int npre = (int) h.pre.size(); if (d0.op >= npre) h.ops.resize(std::min<size_t>(h.ops.size(), d0.op - npre + 1)); else { h.ops.clear(); h.pre.resize(d0.op + 1); } if (!same(h)) h = h0; }
  while (progress && budget > 0) {
    progress = false;
    for (int i = (int) h.ops.size() - 1; i >= 0 && budget > 0; i--) {
      if (h.ops[i].kind == 2) continue;        // keep scanner creations: indices of later ops refer to them
      H20 t = h; t.ops.erase(t.ops.begin() + i); budget--; if (same(t)) { h = t; progress = true; }
    }
    for (int i = (int) h.pre.size() - 1; i >= 0 && budget > 0; i--) { H20 t = h; t.pre.erase(t.pre.begin() + i); budget--; if (same(t)) { h = t; progress = true; } }
  }
  return h;
}

// ------------------------------------------------------------------- main ---
int main(int argc, char** argv) {
  Args args(argc, argv);
  sim_symbolize((void*) &main);
  std::string cmd = args.pos.empty() ? "run" : args.pos[0];
  yr_initialize();
  init_of_table();
  init_prefix_pair();
  Stats st;
  if (cmd == "replay") {
    J rp; if (args.pos.size() < 2 || !J::load(args.pos[1], rp)) return 2;
    const J& c = rp.has("replay") ? rp["replay"] : rp;
    if (c["mode"].str() == "c10") {
      H10 h; if (c.has("ops")) h = h10_from(c); else { Rng rng(sim_run_seed((uint64_t) c["seed"].num(), (uint64_t) c["run"].num())); h = gen_h10(rng); }
      CompileResult cr = compile_rules(h.spec); if (!cr.rules) { fprintf(stderr, "replay: rules do not compile\n"); return 2; }
      if (has_mapfault(h)) {
        IsoResult iso = sim_isolate([&] { Diff10 d = run_h10(h, cr.rules, nullptr); if (d.op >= 0) iso_emit(std::to_string(d.op) + "\x01" + d.what + "\x01" + d.tag + "\x01" + d.detail.substr(0, 1500) + "\n"); else iso_emit("ok\n"); }, 120);
        std::string what, tag, detail; int op = -1;
        if (iso.kind != 0) { what = "crash"; tag = sim_crash_signature(iso).substr(0, 80); detail = iso.err.substr(0, 1500); op = (int) h.ops.size() - 1; }
        else if (iso.out.rfind("ok", 0) != 0) { std::vector<std::string> f; size_t p = 0; std::string ln = iso.out.substr(0, iso.out.find('\n')); while (f.size() < 3) { size_t e = ln.find('\x01', p); f.push_back(ln.substr(p, e - p)); p = e + 1; } op = atoi(f[0].c_str()); what = f[1]; tag = f[2]; detail = ln.substr(p); }
        if (op >= 0) { H10 t = h; t.ops.resize(std::min<size_t>(h.ops.size(), (size_t) op + 1)); emit_violation("C10", what, "history|" + what + "|" + tag + "|file-truncated-during-evaluation", detail + " [" + shape10(t) + "]", c); }
        yr_rules_destroy(cr.rules); J done = J::obj(); done.set("t", "replayed"); emit_line(done); return 0;
      }
      Diff10 d = run_h10(h, cr.rules, nullptr);
      if (d.op >= 0) { H10 t = h; t.ops.resize(d.op + 1); emit_violation("C10", d.what, "history|" + d.what + "|" + d.tag + "|" + triggers10(t), d.detail + " [" + shape10(t) + "]", c); }
      yr_rules_destroy(cr.rules);
    } else {
      H20 h; if (c.has("ops")) h = h20_from(c); else { Rng rng(sim_run_seed((uint64_t) c["seed"].num(), (uint64_t) c["run"].num())); h = gen_h20(rng); }
      Diff20 d = run_h20(h, nullptr);
      if (d.op >= 0) emit_violation("C20", d.what, "env|" + d.what + "|" + d.tag, d.detail + " after " + shape20(h, d.op), c);
    }
    J done = J::obj(); done.set("t", "replayed"); emit_line(done);
    return 0;
  }
  Shard sh = parse_shard(args);
  bool thorough = args.get("tier", "quick") == "thorough";
  uint64_t seed = args.num("seed", 1); int64_t from = args.num("from", 0);
  std::string mode = args.get("mode", "c10");
  double budget = (double) args.num("budget", thorough ? 1200 : 60), t0 = now_s();
  int64_t n = args.num("histories", mode == "c10" ? (thorough ? 40000 : 640) : (thorough ? 400000 : 7000));
  std::set<std::string> reported;
  for (int64_t i = from; i < n; i++) {
    if (!sh.mine(i)) continue;
    if (now_s() - t0 > budget) { st.c["stopped_by_budget"]++; break; }
    { J b = J::obj(); b.set("t", "begin"); b.set("run", i); J rp = J::obj(); rp.set("engine", "sim_history"); rp.set("mode", mode); rp.set("seed", (int64_t) seed); rp.set("run", i); b.set("replay", rp); emit_line(b); }
    Rng rng(sim_run_seed(seed, i));
    if (mode == "c10") {
      H10 h = gen_h10(rng);
      CompileResult cr = compile_rules(h.spec);
      if (!cr.rules) { st.c["case_did_not_compile"]++; J e = J::obj(); e.set("t", "end"); emit_line(e); continue; }
      if (has_mapfault(h)) {
        // whole history in a child; no shrinking (each attempt would need its own child), the history is cut after the failing scan
        IsoResult iso = sim_isolate([&] { Diff10 d = run_h10(h, cr.rules, nullptr); if (d.op >= 0) iso_emit(std::to_string(d.op) + "\x01" + d.what + "\x01" + d.tag + "\x01" + d.detail.substr(0, 1500) + "\n"); else iso_emit("ok\n"); }, 120);
        st.runs++; st.c["scans"] += h.ops.size(); st.c["faults_fired.mapped_file_truncated_during_evaluation"]++;
        { Hash64 hh; hh.add(shape10(h)); hh.add(h.spec.sources[0].second); st.hash(hh.h); }
        std::string what, tag, detail; int op = -1;
        if (iso.kind != 0) { what = "crash"; tag = sim_crash_signature(iso).substr(0, 80); detail = iso.err.substr(0, 1500); op = (int) h.ops.size() - 1; }
        else if (iso.out.rfind("ok", 0) != 0) { std::vector<std::string> f; size_t p = 0; std::string ln = iso.out.substr(0, iso.out.find('\n')); while (f.size() < 3) { size_t e = ln.find('\x01', p); f.push_back(ln.substr(p, e - p)); p = e + 1; } op = atoi(f[0].c_str()); what = f[1]; tag = f[2]; detail = ln.substr(p); }
        if (op >= 0) { st.c["viol." + what]++; H10 t = h; t.ops.resize(std::min<size_t>(h.ops.size(), (size_t) op + 1)); std::string sig = "history|" + what + "|" + tag + "|file-truncated-during-evaluation"; if (reported.insert(sig).second) emit_violation("C10", what, sig, detail + " [" + shape10(t) + "]", h10_json(t)); }
        yr_rules_destroy(cr.rules);
        { J e = J::obj(); e.set("t", "end"); emit_line(e); }
        if (st.hashes.size() > 2000) st.flush(false);
        continue;
      }
      Diff10 d = run_h10(h, cr.rules, &st);
      st.runs++; st.c["scans"] += h.ops.size();
      { Hash64 hh; hh.add(shape10(h)); hh.add(h.spec.sources[0].second); st.hash(hh.h); }
      if (d.op >= 0) {
        st.c["viol." + d.what]++;
        H10 small = shrink10(h, cr.rules, d);
        Diff10 d2 = run_h10(small, cr.rules, nullptr);
        if (!(d2.op >= 0 && d2.what == d.what && d2.tag == d.tag)) { small = h; small.ops.resize(d.op + 1); d2 = d; }
        H10 t = small; t.ops.resize(d2.op + 1);
        std::string sig = "history|" + d.what + "|" + d.tag + "|" + triggers10(t);
        if (reported.insert(sig).second) emit_violation("C10", d.what, sig, d2.detail + " [history of " + std::to_string(h.ops.size()) + " scans shrunk to " + std::to_string(t.ops.size()) + ": " + shape10(t) + "]", h10_json(small));
      }
      if (st.samples.size() < 3) { J s = J::obj(); s.set("history", shape10(h)); s.set("rules_bytes", (int64_t) h.spec.sources[0].second.size()); st.sample(s); }
      yr_rules_destroy(cr.rules);
    } else {
      H20 h = gen_h20(rng);
      Diff20 d = run_h20(h, &st);
      st.runs++;
      { Hash64 hh; hh.add(shape20(h, 1000)); for (auto& o : h.ops) { hh.addu(o.v.i); hh.add(o.v.s); } st.hash(hh.h); }
      if (d.op >= 0) {
        st.c["viol." + d.what]++;
        std::string sig = "env|" + d.what + "|" + d.tag;
        if (reported.insert(sig).second) { H20 small = shrink20(h, d); Diff20 d2 = run_h20(small, nullptr); if (!(d2.op >= 0 && d2.what == d.what && d2.tag == d.tag)) { small = h; d2 = d; } emit_violation("C20", d.what, sig, d2.detail + " after " + shape20(small, d2.op) + " [" + std::to_string(h.pre.size() + h.ops.size()) + " ops shrunk to " + std::to_string(small.pre.size() + small.ops.size()) + "]", h20_json(small)); }
      }
      if (st.samples.size() < 3) { J s = J::obj(); s.set("history", shape20(h, 1000)); st.sample(s); }
    }
    { J e = J::obj(); e.set("t", "end"); emit_line(e); }
    if (st.hashes.size() > 2000) st.flush(false);
  }
  if (g_twin_compiles) { st.c["literal_twin.compiled"] += g_twin_compiles; st.c["literal_twin.cache_hits"] += g_twin_hits; }
  st.flush();
  yr_finalize();
  return 0;
}
