// C09 — concurrent scans sharing one rule set are race-free and deterministic.
// N real threads under the baton scheduler (sim/sched.cc); yield points at every
// instrumented basic block of yara and at every seam call.  DESIGN.md §5.C09.
#include "engine.h"
#include "rulelab.h"
#include "simsched.h"
#include <unistd.h>
#include <fcntl.h>
#include <signal.h>
#include <sys/mman.h>

extern "C" char sim_mark_data_A[], sim_mark_data_Z[], sim_mark_bss_A[], sim_mark_bss_Z[];
extern "C" int exception_handler_usecount __attribute__((weak));

// ------------------------------------------------------------- work plans ---
enum Api { A_SCANNER_MEM, A_RULES_MEM, A_RULES_FILE, A_RULES_FD, A_SCANNER_BLOCKS, A_RULES_FILE_TRUNC, A_RULES_FD_MMAPFAIL, A_NAPI };
struct ScanPlan { int api; int buf; int reply_at; int reply; int ext_i; int ext_off; int mdata; int timeout; int ext_b = -1; int ext_f = -1; int ext_s = -1; };   // ext_b/f/s: -1 = this scan keeps the rule set's value
struct TaskPlan { std::vector<ScanPlan> scans; bool compile_task = false; };
struct RunPlan { int rules_idx; std::vector<TaskPlan> tasks; SchedPolicy pol; bool fresh_rules = false; };

struct Shared { YR_RULES* rules; std::string image; std::vector<std::string> bufs; std::vector<std::string> files; std::string trunc_path; std::vector<std::string> pristine; std::string pristine_struct; };   // pristine: the rule set's arena contents right after compilation

static const char* MDATA[] = {"", "mdata-1", "mdata-2"};

struct ScanResult { int rc; std::string trace; };

// per-task simulated clocks: a thread's monotonic time advances with its own reads only
struct TaskClock { int64_t now = 1000000000LL; };
static TaskClock g_tclock[64];
static int64_t g_clock_step = 1000;

static ScanResult do_scan(const Shared& sh, const ScanPlan& p, YR_SCANNER* sc) {
  ScanResult r; Recorder rec;
  if (p.mdata) { rec.module_data = MDATA[p.mdata]; rec.module_data_size = strlen(MDATA[p.mdata]); rec.module_data_for = "tests"; }
  if (p.reply_at >= 0) { rec.reply_at = p.reply_at; rec.reply_code = p.reply; }
  rec.hook = [](Recorder&, YR_SCAN_CONTEXT*, int, void*) { sched_yield(YK_CALLBACK, nullptr); return -1; };
  const std::string& buf = sh.bufs[p.buf];
  switch (p.api) {
    case A_SCANNER_MEM: case A_SCANNER_BLOCKS:
      yr_scanner_set_callback(sc, recorder_callback, &rec); yr_scanner_set_timeout(sc, p.timeout);
      yr_scanner_define_integer_variable(sc, "ext_i", p.ext_i); yr_scanner_define_integer_variable(sc, "ext_off", p.ext_off);
      // every type of scanner-level definition: each must stay private to this scanner (the solo run of the same plan is the reference)
      if (p.ext_b >= 0) yr_scanner_define_boolean_variable(sc, "ext_b", p.ext_b);
      if (p.ext_f >= 0) yr_scanner_define_float_variable(sc, "ext_f", p.ext_f ? 2.5 : 9.5);
      if (p.ext_s >= 0) yr_scanner_define_string_variable(sc, "ext_s", p.ext_s ? "hay needle" : "nothing here");
      if (p.api == A_SCANNER_MEM) r.rc = yr_scanner_scan_mem(sc, (const uint8_t*) buf.data(), buf.size());
      else { BlockIter bi; size_t cut = buf.size() / 2; if (buf.size() >= 2) bi.init(buf.data(), buf.size(), {{0, cut}, {cut, buf.size() - cut}}); else bi.init_single(buf.data(), buf.size()); bi.on_call = [](BlockIter&, int64_t, bool) { sched_yield(YK_ITER, nullptr); }; r.rc = yr_scanner_scan_mem_blocks(sc, &bi.it); }
      break;
    case A_RULES_MEM: r.rc = yr_rules_scan_mem(sh.rules, (const uint8_t*) buf.data(), buf.size(), 0, recorder_callback, &rec, p.timeout); break;
    case A_RULES_FILE: r.rc = yr_rules_scan_file(sh.rules, sh.files[p.buf].c_str(), 0, recorder_callback, &rec, p.timeout); break;
    case A_RULES_FD: { int fd = open(sh.files[p.buf].c_str(), O_RDONLY); r.rc = yr_rules_scan_fd(sh.rules, fd, 0, recorder_callback, &rec, p.timeout); close(fd); break; }
    case A_RULES_FD_MMAPFAIL: {
      // the mapping of this task's descriptor fails (ENOMEM): documented error, and the caller's descriptor stays the caller's
      static __thread bool t_fail; t_fail = true;
      struct Hook { static bool fail() { if (t_fail) { t_fail = false; return true; } return false; } };
      g_fail_mmap_hook = Hook::fail;
      int fd = open(sh.files[p.buf].c_str(), O_RDONLY); r.rc = sh.bufs[p.buf].empty() ? ERROR_COULD_NOT_MAP_FILE : yr_rules_scan_fd(sh.rules, fd, 0, recorder_callback, &rec, p.timeout); t_fail = false; close(fd); break; }
    case A_RULES_FILE_TRUNC: {
      // a private 3-page file whose tail disappears right after yara mapped it: real SIGBUS inside YR_TRYCATCH
      std::string path = sh.trunc_path + "." + std::to_string(sched_self() < 0 ? 99 : sched_self());
      { std::string d = sh.bufs[0]; d.resize(3 * 4096, 'z'); write_file(path, d); }
      static __thread const char* t_path; t_path = path.c_str();
      static __thread bool t_armed; t_armed = true;
      // the mmap seam tells us when the file is mapped (per-thread arming: only this task's mapping truncates)
      struct Hook { static void after_mmap() { if (t_armed) { t_armed = false; if (truncate(t_path, 4096) != 0) {} } } };
      g_after_mmap = Hook::after_mmap;
      r.rc = yr_rules_scan_file(sh.rules, path.c_str(), 0, recorder_callback, &rec, 0);
      t_armed = false; unlink(path.c_str());
      break; }
  }
  r.trace = rec.text;
  return r;
}

static std::vector<ScanResult> run_task(const Shared& sh, const TaskPlan& tp) {
  std::vector<ScanResult> out;
  if (tp.compile_task) {
    // an unrelated compilation next to running scans (lexer trampolines, compiler arenas), one good one failing
    for (int k = 0; k < 2; k++) { CompileSpec cs; cs.sources.push_back({"", k == 0 ? "rule side { strings: $a = \"side\" $b = /si[a-z]+e/ condition: $a or $b }" : "rule broken { strings: $a = { AA [4-2] BB } condition: $a and nope }"}); CompileResult cr = compile_rules(cs); ScanResult r; r.rc = cr.errors; r.trace = cr.rules ? "compiled" : "errors"; if (cr.rules) yr_rules_destroy(cr.rules); out.push_back(r); }
    return out;
  }
  YR_SCANNER* sc = NULL;
  bool need_sc = false; for (auto& s : tp.scans) if (s.api == A_SCANNER_MEM || s.api == A_SCANNER_BLOCKS) need_sc = true;
  if (need_sc && yr_scanner_create(sh.rules, &sc) != ERROR_SUCCESS) sc = NULL;
  for (auto& s : tp.scans) out.push_back(do_scan(sh, s, sc));
  if (sc) yr_scanner_destroy(sc);
  return out;
}

// ------------------------------------------------------------- invariants ---
static uint64_t hash_rules(YR_RULES* r) {
  Hash64 h;
  for (uint32_t i = 0; i < r->arena->num_buffers; i++) { YR_ARENA_BUFFER* b = &r->arena->buffers[i]; if (b->data && b->used) h.add(b->data, b->used); }
  h.add(r, sizeof(*r));
  h.add(r->arena, sizeof(*r->arena));      // reference count, buffer table, relocation list head: shared by every scanner of the rule set
  if (r->no_required_strings) h.add(r->no_required_strings, sizeof(YR_BITMASK) * YR_BITMASK_SIZE(r->num_rules));
  return h.h;
}

// The region holds ASan red zones between globals, so it is read with plain word loops
// from functions that are not instrumented (library memcpy/memcmp are intercepted).
#define NOASAN __attribute__((no_sanitize("address"), noinline))
struct GlobalsWatch {
  struct Region { uint64_t* lo; size_t words; uint64_t* shadow; };
  std::vector<Region> regions;
  struct W { int task; bool unlocked; };
  std::map<uint64_t*, W> writers;          // last writer of each 8-byte word during the concurrent phase
  std::vector<std::string> conflicts;
  int64_t words_written = 0;
  NOASAN static void copy_words(uint64_t* dst, const uint64_t* src, size_t n) { for (size_t i = 0; i < n; i++) dst[i] = src[i]; }
  NOASAN static size_t next_diff(const uint64_t* a, const uint64_t* b, size_t from, size_t n) { for (size_t i = from; i < n; i++) if (a[i] != b[i]) return i; return n; }
  NOASAN static uint64_t read_word(const uint64_t* p) { return *p; }
  void init() {
    regions.clear();
    auto add = [&](char* a, char* z) { uintptr_t lo = ((uintptr_t) a + 64 + 7) & ~(uintptr_t) 7, hi = (uintptr_t) z & ~(uintptr_t) 7; if (hi > lo) { Region r; r.lo = (uint64_t*) lo; r.words = (hi - lo) / 8; r.shadow = (uint64_t*) malloc(r.words * 8); copy_words(r.shadow, r.lo, r.words); regions.push_back(r); } };
    add(sim_mark_data_A, sim_mark_data_Z); add(sim_mark_bss_A, sim_mark_bss_Z);
  }
  void resync() { for (auto& r : regions) copy_words(r.shadow, r.lo, r.words); writers.clear(); conflicts.clear(); }
  std::set<std::pair<int, size_t>> hot;       // (region, 4 KiB page) ever seen modified: only these are diffed at every switch
  int64_t new_hot_pages = 0;
  void note(int task, bool unlocked, Region& r, size_t i) {
    uint64_t* addr = r.lo + i;
    std::string sym = sim_symbolize_data(addr);
    if (sym.rfind("exception_handler_mutex", 0) == 0) return;          // the real mutex object is not used under simulation
    auto it = writers.find(addr);
    if (it == writers.end()) writers[addr] = {task, unlocked};
    else if (it->second.task != task && it->second.task >= 0 && task >= 0 && (it->second.unlocked || unlocked)) { conflicts.push_back(sym.substr(0, sym.find('+'))); it->second.task = task; it->second.unlocked = unlocked; }
    else { it->second.task = task; it->second.unlocked = it->second.unlocked || unlocked; }
  }
  // fast path: only the hot pages
  void diff(int task, bool unlocked) {
    for (auto& hp : hot) {
      Region& r = regions[hp.first]; size_t lo = hp.second * 512, hi = std::min(r.words, lo + 512), i = lo;
      while ((i = next_diff(r.shadow, r.lo, i, hi)) < hi) { r.shadow[i] = read_word(r.lo + i); words_written++; note(task, unlocked, r, i); i++; }
    }
  }
  // whole region: finds pages that were never hot before (their writer is unknown: task -2)
  void diff_full() {
    for (size_t ri = 0; ri < regions.size(); ri++) { Region& r = regions[ri]; size_t i = 0;
      while ((i = next_diff(r.shadow, r.lo, i, r.words)) < r.words) { r.shadow[i] = read_word(r.lo + i); words_written++; if (hot.insert({(int) ri, i / 512}).second) new_hot_pages++; i++; } }
  }
  void diff_OLD(int task, bool unlocked) {
    for (auto& r : regions) {
      size_t i = 0;
      while ((i = next_diff(r.shadow, r.lo, i, r.words)) < r.words) {
        r.shadow[i] = read_word(r.lo + i); words_written++;
        uint64_t* addr = r.lo + i; i++;
        std::string sym = sim_symbolize_data(addr);
        if (sym.rfind("exception_handler_mutex", 0) == 0) continue;          // the real mutex object is not used under simulation
        auto it = writers.find(addr);
        if (it == writers.end()) writers[addr] = {task, unlocked};
        else if (it->second.task != task && (it->second.unlocked || unlocked)) { conflicts.push_back(sym); it->second.task = task; it->second.unlocked = unlocked; }
        else { it->second.task = task; it->second.unlocked = it->second.unlocked || unlocked; }
      }
    }
  }
  size_t bytes() const { size_t n = 0; for (auto& r : regions) n += r.words * 8; return n; }
};
static GlobalsWatch g_watch;


// --------------------------------------------------------------- generation --
static const int NBUF = 7;
static RunPlan gen_plan(Rng& rng, int nrules, bool big) {
  RunPlan rp; rp.rules_idx = (int) rng.below(nrules); rp.fresh_rules = rng.chance(1, 2);
  int T = big ? (int) rng.range(8, 32) : (int) rng.range(2, 6);
  for (int t = 0; t < T; t++) {
    TaskPlan tp;
    if (!big && rng.chance(1, 10)) { tp.compile_task = true; rp.tasks.push_back(tp); continue; }
    int n = big ? 1 + (int) rng.below(2) : (int) rng.range(2, 6);
    for (int k = 0; k < n; k++) {
      ScanPlan s; s.api = (int) rng.below(A_NAPI); if ((s.api == A_RULES_FILE_TRUNC || s.api == A_RULES_FD_MMAPFAIL) && !rng.chance(1, 3)) s.api = A_SCANNER_MEM;
      s.buf = (int) rng.below(big ? 3 : NBUF); if (big && s.buf == 1) s.buf = 0;
      s.reply_at = rng.chance(1, 4) ? (int) rng.below(30) : -1; s.reply = rng.chance(1, 2) ? CALLBACK_ABORT : CALLBACK_ERROR;
      s.ext_i = rng.chance(1, 2) ? 42 : (int) rng.below(50); s.ext_off = rng.chance(1, 2) ? 5 : (int) rng.below(9); s.mdata = (int) rng.below(3); s.timeout = rng.chance(1, 3) ? 2 : 0;
      if (rng.chance(1, 3)) s.ext_b = (int) rng.below(2);
      if (rng.chance(1, 4)) s.ext_f = (int) rng.below(2);
      if (rng.chance(1, 4)) s.ext_s = (int) rng.below(2);
      tp.scans.push_back(s);
    }
    rp.tasks.push_back(tp);
  }
  SchedPolicy& p = rp.pol; p.kind = (int) rng.below(4);
  static const int dens[] = {1, 2, 4, 16, 64};
  for (int k = 0; k < 16; k++) p.switch_den[k] = dens[rng.below(5)];
  static const int adens[] = {16, 64, 256, 1024}; p.switch_den[YK_BB] = dens[rng.below(3)]; p.switch_den[YK_ALLOC] = adens[rng.below(4)]; p.switch_den[YK_FREE] = adens[rng.below(4)];
  static const int64_t means[] = {300, 2000, 20000, 200000};
  p.bb_mean = means[rng.below(4)]; p.change_points = (int) rng.range(1, 4); p.sync_yields_estimate = 40 * T; p.starved = (int) rng.below(T); p.max_steps = 6000000;
  return rp;
}

struct RunReport { std::string sig, klass, detail; uint64_t sched_hash = 0; SchedStats st; int64_t scans = 0; int64_t new_hot = 0; std::vector<SchedEntry> trace; };

// every run starts from the rule set as compiled: what a run sees never depends on what an earlier run on this worker
// left in the shared rule set (a replay in a fresh process starts from the same bytes)
static void restore_pristine(const Shared& sh0) { YR_RULES* r = sh0.rules; for (uint32_t i = 0; i < r->arena->num_buffers && i < sh0.pristine.size(); i++) { YR_ARENA_BUFFER* b = &r->arena->buffers[i]; if (b->data && b->used == sh0.pristine[i].size()) memcpy(b->data, sh0.pristine[i].data(), b->used); } if (sh0.pristine_struct.size() == sizeof(*r)) memcpy(r, sh0.pristine_struct.data(), sizeof(*r)); }

static RunReport execute(const std::vector<Shared>& shared, const RunPlan& rp, uint64_t run_seed, const std::vector<SchedEntry>* script = nullptr) {
  RunReport rep; const Shared& sh0 = shared[rp.rules_idx];
  sim_rand_seed(run_seed);
  sim_detheap_reset();
  restore_pristine(sh0);
  // solo references use the long-lived rule set; the concurrent phase gets a copy loaded just now, so that
  // its threads are the first ever to create scanners on it (lazy per-rule-set initialisation would race here)
  Shared sh = sh0; YR_RULES* fresh = NULL;
  if (rp.fresh_rules && load_rules(sh0.image, &fresh) == ERROR_SUCCESS) sh.rules = fresh;
  const Shared& shs = sh0;
  // ---- solo references (no scheduler; each task's clock alone)
  std::vector<std::vector<ScanResult>> solo;
  g_clock.override_fn = [](int clk, struct timespec* ts) { int id = sched_self(); TaskClock& c = g_tclock[id < 0 ? 63 : id % 63]; c.now += g_clock_step; int64_t t = c.now; if (clk == CLOCK_PROCESS_CPUTIME_ID) { t = 0; for (int i = 0; i < 64; i++) t += g_tclock[i].now - 1000000000LL; } if (clk == CLOCK_REALTIME) t += g_clock.epoch0 * 1000000000LL; ts->tv_sec = t / 1000000000LL; ts->tv_nsec = t % 1000000000LL; return true; };
  g_clock_step = 2000000;      // 2 ms per clock read: a scan with a 2 s timeout survives 1000 of its own reads
  uint64_t hash_in = hash_rules(sh0.rules);
  for (auto& tp : rp.tasks) { for (auto& c : g_tclock) c = TaskClock(); solo.push_back(run_task(shs, tp)); g_watch.diff_full(); }
  for (auto& c : g_tclock) c = TaskClock();
  // per-scanner definitions, callbacks, timeouts and module data are private to their scanner: already the sequential
  // reference scans must leave the rule set as they found it.  (The long-lived rule set is put back afterwards, so
  // that what a later run on this worker sees does not depend on this one.)
  if (hash_rules(sh0.rules) != hash_in) {
    rep.klass = "shared-rules-written"; rep.sig = "shared|rule-set-modified|by-sequential-scans"; rep.detail = "the shared rule set's memory changed while the tasks' scans were run one after the other (scanner-level definitions, module data, callbacks and timeouts must stay in the scanner)";
    restore_pristine(sh0);
    if (fresh) yr_rules_destroy(fresh);
    g_clock.override_fn = nullptr;
    return rep;
  }
  uint64_t rules_hash0 = hash_rules(sh.rules);
  struct sigaction bus0, segv0; sigaction(SIGBUS, NULL, &bus0); sigaction(SIGSEGV, NULL, &segv0);
  size_t live0 = sim_alloc_live_count(); int fds0 = g_fs.open_fds, maps0 = g_fs.live_maps, fc0 = g_fs.foreign_closes;
  uint64_t seq0 = 0; { auto l0 = sim_alloc_live(); if (!l0.empty()) seq0 = l0.back().seq; }
  g_fs.refuse_foreign_close = true;
  // ---- concurrent phase
  std::vector<std::vector<ScanResult>> conc(rp.tasks.size());
  g_watch.resync();
  if (script) sched_begin_scripted(run_seed, rp.pol, *script); else sched_begin(run_seed, rp.pol);
  static int64_t switch_no; switch_no = 0; static uint64_t rules_hash_ref; rules_hash_ref = rules_hash0; static YR_RULES* rules_ref; rules_ref = sh.rules; static bool rules_changed; rules_changed = false;
  g_on_lockop = [](int task, bool holding) { g_watch.diff(task, !holding); };
  g_on_switch = [](int from, int to, int kind) { switch_no++; g_watch.diff(from, sched_locks_held() == 0); if ((switch_no & 7) == 0 && hash_rules(rules_ref) != rules_hash_ref) rules_changed = true; };
  for (size_t t = 0; t < rp.tasks.size(); t++) sched_spawn([&, t] { conc[t] = run_task(sh, rp.tasks[t]); });
  SchedStatus ss = sched_run();
  rep.st = sched_stats(); rep.sched_hash = rep.st.hash; rep.trace = sched_trace();
  if (ss != SCHED_OK) { rep.klass = ss == SCHED_DEADLOCK ? "deadlock" : "no-progress"; rep.sig = std::string("sched|") + (ss == SCHED_DEADLOCK ? "deadlock" : "step-budget"); rep.detail = rep.st.deadlock_info; sched_end(); return rep; }
  g_watch.diff(-1, true);
  { int64_t before = g_watch.new_hot_pages; g_watch.diff_full(); if (g_watch.new_hot_pages != before) rep.new_hot = g_watch.new_hot_pages - before; }
  sched_end();
  // ---- oracles
  for (size_t t = 0; t < rp.tasks.size() && rep.sig.empty(); t++) {
    if (conc[t].size() != solo[t].size()) { rep.klass = "scan-differs-from-solo"; rep.sig = "conc|scan-count"; break; }
    for (size_t k = 0; k < conc[t].size(); k++) {
      rep.scans++;
      if (conc[t][k].rc == solo[t][k].rc && conc[t][k].trace == solo[t][k].trace) continue;
      const ScanPlan* sp = rp.tasks[t].compile_task ? nullptr : &rp.tasks[t].scans[k];
      static const char* API[] = {"scanner_mem", "rules_mem", "rules_file", "rules_fd", "scanner_blocks", "rules_file_truncated", "rules_fd_mmap_fails"};
      std::string what = conc[t][k].rc != solo[t][k].rc ? std::string("rc:") + yr_error_name(solo[t][k].rc) + "->" + yr_error_name(conc[t][k].rc) : "trace";
      rep.klass = "scan-differs-from-solo"; rep.sig = std::string("conc|") + (sp ? API[sp->api] : "compile") + "|" + what;
      rep.detail = "task " + std::to_string(t) + " scan " + std::to_string(k) + " differs from the same scan run alone (" + what + ")";
      if (conc[t][k].trace != solo[t][k].trace) { size_t i = 0; const std::string &a = solo[t][k].trace, &b = conc[t][k].trace; while (i < a.size() && i < b.size() && a[i] == b[i]) i++; size_t ls = a.rfind('\n', i ? i - 1 : 0); ls = ls == std::string::npos ? 0 : ls + 1; rep.detail += "; solo: '" + a.substr(std::min(ls, a.size()), 100) + "' concurrent: '" + b.substr(std::min(ls, b.size()), 100) + "'"; }
      break;
    }
  }
  if (rep.sig.empty() && (rules_changed || hash_rules(sh.rules) != rules_hash0)) { rep.klass = "shared-rules-written"; rep.sig = "shared|rule-set-modified"; rep.detail = "the shared rule set's memory changed during the concurrent phase"; }
  if (rep.sig.empty() && !g_watch.conflicts.empty()) { rep.klass = "unsynchronised-global-write"; std::set<std::string> u(g_watch.conflicts.begin(), g_watch.conflicts.end()); std::string syms; for (auto& s : u) syms += s + ","; rep.sig = "globals|write-lockset|" + syms; rep.detail = "libyara globals written by two tasks without a common lock: " + syms; }
  if (rep.sig.empty()) {
    struct sigaction bus1, segv1; sigaction(SIGBUS, NULL, &bus1); sigaction(SIGSEGV, NULL, &segv1);
    if (bus1.sa_sigaction != bus0.sa_sigaction || segv1.sa_sigaction != segv0.sa_sigaction) { rep.klass = "signal-handler-not-restored"; rep.sig = "signals|disposition-changed"; rep.detail = "SIGBUS/SIGSEGV disposition after the run differs from the one before"; }
    else if (&exception_handler_usecount && exception_handler_usecount != 0) { rep.klass = "signal-handler-not-restored"; rep.sig = "signals|usecount-nonzero"; rep.detail = "exception_handler_usecount = " + std::to_string(exception_handler_usecount) + " at quiescence"; }
  }
  g_fs.refuse_foreign_close = false;
  if (rep.sig.empty() && g_fs.foreign_closes != fc0) { rep.klass = "descriptor-not-owned-closed"; rep.sig = "ledger|foreign-close"; rep.detail = std::to_string(g_fs.foreign_closes - fc0) + " close() call(s) on descriptors yara did not open (the caller's, or already closed: another thread's file in a real run)"; }
  // A SIGBUS taken in the middle of regex verification longjmps out of yr_re_exec and loses the fibers in flight
  // (observation, DESIGN.md 5.C09): no property lists a memory fault as a scan outcome, so runs that contain a
  // truncated-mapping scan are exempt from the allocation ledger (descriptors and mappings are still checked).
  bool has_sigbus = false; for (auto& t : rp.tasks) for (auto& sp : t.scans) if (sp.api == A_RULES_FILE_TRUNC) has_sigbus = true;
  if (rep.sig.empty() && ((!has_sigbus && sim_alloc_live_count() != live0) || g_fs.open_fds != fds0 || g_fs.live_maps != maps0)) { rep.klass = "leak"; rep.sig = "ledger|unbalanced"; rep.detail = "allocations " + std::to_string((long) sim_alloc_live_count() - (long) live0) + ", fds " + std::to_string(g_fs.open_fds - fds0) + ", mappings " + std::to_string(g_fs.live_maps - maps0) + " left after all tasks finished"; { std::string apis; static const char* API2[] = {"scanner_mem", "rules_mem", "rules_file", "rules_fd", "scanner_blocks", "rules_file_truncated", "rules_fd_mmap_fails"}; for (auto& t : rp.tasks) { apis += "{"; for (auto& sp : t.scans) apis += std::string(API2[sp.api]) + (sp.reply_at >= 0 ? "!" : "") + ","; apis += "}"; } rep.detail += " tasks=" + apis; }
    auto live = sim_alloc_live(); int shown = 0; for (size_t k = live.size(); k > 0 && shown < 3; k--) if (live[k - 1].seq > seq0) { rep.detail += " [" + sim_bt_chain(live[k - 1].bt, 1, 4) + " " + std::to_string(live[k - 1].size) + "B]"; shown++; } }
  if (fresh) yr_rules_destroy(fresh);
  return rep;
}

static J plan_brief(const RunPlan& rp) { J j = J::obj(); j.set("tasks", (int64_t) rp.tasks.size()); int n = 0; for (auto& t : rp.tasks) n += t.scans.size(); j.set("scans", n); j.set("policy", rp.pol.kind); j.set("bb_mean", rp.pol.bb_mean); return j; }

static std::vector<Shared> make_shared(uint64_t seed) {
  std::vector<Shared> v; Rng rng(sim_run_seed(seed, 424242));
  for (int i = 0; i < 3; i++) {
    Shared sh; LabCase lc;
    if (i == 0) { GenSet all = gen_all_frags(); add_default_externals(lc.spec); lc.spec.sources.push_back({"", all.source() + ext_probe_rules() + "rule md { condition: tests.module_data == \"mdata-1\" }\n"}); Rng r2(5); lc.buffers.push_back("HEAD_EXTMARK " + gen_text_buffer(r2, all.plants(), 1500)); }
    else { lc = gen_labcase(rng, 14, true, true, true); lc.spec.sources[0].second = "import \"tests\"\n" + lc.spec.sources[0].second + "rule md { condition: tests.module_data == \"mdata-1\" }\n"; }
    lc.spec.sources[0].second += "rule many_ab { strings: $a = \"ab\" condition: #a > 3 }\nrule many_by { strings: $b = \"bystander\" condition: $b }\n";
    CompileResult cr = compile_rules(lc.spec); if (!cr.rules) { fprintf(stderr, "c09: shared rules do not compile: %s\n", cr.messages.c_str()); abort(); }
    sh.rules = cr.rules; save_rules(cr.rules, sh.image);
    for (uint32_t b = 0; b < cr.rules->arena->num_buffers; b++) { YR_ARENA_BUFFER* ab = &cr.rules->arena->buffers[b]; sh.pristine.push_back(ab->data ? std::string((const char*) ab->data, ab->used) : std::string()); } sh.pristine_struct.assign((const char*) cr.rules, sizeof(*cr.rules));
    sh.bufs = {lc.buffers[0], corpus_file("tiny"), "", gen_text_buffer(rng, "alpha_text reg77ex EXTMARK", 400), corpus_file("elf_with_imports"), std::string(9000, 'q') + " alpha_text", std::string("bystander ") + [] { std::string m; for (int k = 0; k < 300; k++) m += "ab"; return m; }() + " bystander alpha_text"};
    for (size_t b = 0; b < sh.bufs.size(); b++) { std::string p = tmp_dir() + "/c09-" + std::to_string(i) + "-" + std::to_string(b); write_file(p, sh.bufs[b]); sh.files.push_back(p); }
    sh.trunc_path = tmp_dir() + "/c09-trunc-" + std::to_string(i);
    v.push_back(sh);
  }
  return v;
}

int main(int argc, char** argv) {
  Args args(argc, argv);
  sim_symbolize((void*) &main);
  std::string cmd = args.pos.empty() ? "run" : args.pos[0];
  yr_initialize();
  g_watch.init();
  // realloc must not depend on the heap's history: whether a block can grow in place decides whether the arena runs
  // its relocation fix-up loop, i.e. how many basic blocks execute between two yield points
  g_alloc.always_move = true;
  Stats st; std::set<std::string> reported;
  bool thorough = args.get("tier", "quick") == "thorough";
  uint64_t seed = args.num("seed", 1); int64_t from = args.num("from", 0);
  int64_t only = -1; int max_tasks = -1; bool have_replay_script = false; std::vector<SchedEntry> replay_script;
  std::vector<int64_t> warm, recent;   // warm: runs this process executed just before the replayed one (their process-global leftovers are part of its input)
  if (cmd == "replay") {
    J rp; if (args.pos.size() < 2 || !J::load(args.pos[1], rp)) return 2;
    const J& c = rp.has("replay") ? rp["replay"] : rp; seed = (uint64_t) c["seed"].num(); only = c["run"].num(); max_tasks = c.has("max_tasks") ? (int) c["max_tasks"].num() : -1;
    if (c.has("warm")) for (size_t k = 0; k < c["warm"].size(); k++) warm.push_back(c["warm"][k].num());
    if (c.has("schedule")) { have_replay_script = true; for (size_t k = 0; k < c["schedule"].size(); k++) replay_script.push_back({(int) c["schedule"][k][0].num(), c["schedule"][k][1].num(), (int) c["schedule"][k][2].num()}); }
  }
  sim_detheap_enable();                       // yara's heap addresses become a function of the run alone
  g_alloc.junk_by_address = true;   // uninitialised memory differs from place to place: a scan that reads it cannot agree with its solo run by accident
  std::vector<Shared> shared = make_shared(seed);
  sim_detheap_mark();
  Shard sh = parse_shard(args);
  double budget = (double) args.num("budget", thorough ? 1200 : 60), t0 = now_s();
  int64_t nruns = args.num("runs", thorough ? 200000 : 1600);
  bool dump = args.has("dump-hashes");
  // a replay first repeats the runs that preceded the recorded one in its process: the code under test may keep
  // process-global state from one scan to the next, and a worker that dies in run n may die of what run n-1 left behind
  for (int64_t w : warm) { Rng wr(sim_run_seed(seed, w)); RunPlan wp = gen_plan(wr, (int) shared.size(), wr.chance(1, 12)); execute(shared, wp, sim_run_seed(seed, w) ^ 0x5ced, nullptr); }
  for (int64_t i = only >= 0 ? only : from; i < (only >= 0 ? only + 1 : nruns); i++) {
    if (only < 0 && !sh.mine(i)) continue;
    if (only < 0 && now_s() - t0 > budget) { st.c["stopped_by_budget"]++; break; }
    if (only < 0) { J b = J::obj(); b.set("t", "begin"); b.set("run", i); J rp = J::obj(); rp.set("engine", "sim_threads"); rp.set("seed", (int64_t) seed); rp.set("run", i); if (!recent.empty()) { J wj = J::arr(); for (int64_t w : recent) wj.push(w); rp.set("warm", wj); } b.set("replay", rp); emit_line(b); }
    recent.push_back(i); if (recent.size() > 3) recent.erase(recent.begin());
    Rng rng(sim_run_seed(seed, i));
    RunPlan plan = gen_plan(rng, (int) shared.size(), rng.chance(1, 12));
    if (max_tasks > 0 && (int) plan.tasks.size() > max_tasks) plan.tasks.resize(max_tasks);
    RunReport rep = execute(shared, plan, sim_run_seed(seed, i) ^ 0x5ced, have_replay_script ? &replay_script : nullptr);
    st.runs++; st.c["scans"] += rep.scans; st.c["faults_fired.context_switch"] += rep.st.switches; st.c["yield_decisions"] += rep.st.decisions;
    st.c["faults_fired.blocked_on_mutex"] += rep.st.blocked_on_mutex; st.c["max.tasks"] = std::max<int64_t>(st.c["max.tasks"], plan.tasks.size());
    st.c["yields.basic_block"] += rep.st.yields_by_kind[YK_BB]; st.c["yields.alloc"] += rep.st.yields_by_kind[YK_ALLOC] + rep.st.yields_by_kind[YK_FREE]; st.c["yields.mutex"] += rep.st.yields_by_kind[YK_MUTEX]; st.c["yields.signal"] += rep.st.yields_by_kind[YK_SIGNAL]; st.c["yields.clock"] += rep.st.yields_by_kind[YK_CLOCK]; st.c["yields.callback"] += rep.st.yields_by_kind[YK_CALLBACK]; st.c["yields.file"] += rep.st.yields_by_kind[YK_FILE];
    st.c["probe.global_page_first_written_in_concurrent_phase"] += rep.new_hot; st.c["max.hot_global_pages"] = std::max<int64_t>(st.c["max.hot_global_pages"], g_watch.hot.size());
    st.c[std::string("policy.") + std::to_string(plan.pol.kind)]++; st.c["globals_words_written"] = g_watch.words_written;
    for (auto& t : plan.tasks) for (auto& s : t.scans) { if (s.api == A_RULES_FILE_TRUNC) st.c["faults_fired.file_truncated_while_mapped"]++; if (s.api == A_RULES_FD_MMAPFAIL) st.c["faults_fired.mmap_failure"]++; }
    if (plan.fresh_rules) st.c["probe.runs_on_freshly_loaded_rules"]++;
    if (rep.st.switches > 0) st.hash(rep.sched_hash);
    if (dump) { J h = J::obj(); h.set("t", "rh"); h.set("run", i); char b[20]; snprintf(b, sizeof b, "%016llx", (unsigned long long) rep.sched_hash); std::string kinds; for (int k = 0; k < 16; k++) kinds += std::to_string(rep.st.yields_by_kind[k]) + ","; h.set("h", std::string(b) + ":" + std::to_string(rep.st.switches) + ":" + rep.sig); h.set("kinds", kinds); h.set("decisions", rep.st.decisions); emit_line(h); }
    if (!rep.sig.empty()) {
      st.c["viol." + rep.klass]++;
      if (reported.insert(rep.sig).second || only >= 0) {
        // minimise: fewer tasks while the same signature persists (same seed, so the policy draw is unchanged)
        int best = (int) plan.tasks.size(); std::string detail = rep.detail; std::vector<SchedEntry> script = rep.trace; bool have_script = false; size_t vol0 = 0, vol1 = 0;
        uint64_t rs = sim_run_seed(seed, i) ^ 0x5ced;
        if (only < 0 && rep.klass != "deadlock" && rep.klass != "no-progress") {
          for (int nt = 2; nt < best; nt++) { RunPlan p2 = plan; p2.tasks.resize(nt); RunReport r2 = execute(shared, p2, rs); if (r2.sig == rep.sig) { best = nt; detail = r2.detail; script = r2.trace; break; } }
          // the explicit schedule: first check that replaying the recorded decisions reproduces the violation, then
          // delete voluntary switches (halving chunks) while it still does
          RunPlan pm = plan; pm.tasks.resize(best);
          RunReport rs1 = execute(shared, pm, rs, &script);
          if (rs1.sig == rep.sig) {
            have_script = true; for (auto& e : script) if (e.kind == 0) vol0++;
            int budget = 36;
            for (size_t chunk = std::max<size_t>(vol0 / 2, 1); chunk >= 1 && budget > 0; chunk = chunk / 2) {
              bool removed_any = true;
              while (removed_any && budget > 0) {
                removed_any = false; std::vector<size_t> vol; for (size_t k = 0; k < script.size(); k++) if (script[k].kind == 0) vol.push_back(k);
                for (size_t start = 0; start < vol.size() && budget > 0; start += chunk) {
                  std::vector<SchedEntry> t; std::set<size_t> drop; for (size_t k = start; k < std::min(vol.size(), start + chunk); k++) drop.insert(vol[k]);
                  for (size_t k = 0; k < script.size(); k++) if (!drop.count(k)) t.push_back(script[k]);
                  budget--; RunReport r3 = execute(shared, pm, rs, &t);
                  if (r3.sig == rep.sig) { script = r3.trace; detail = r3.detail; removed_any = true; break; }
                }
              }
              if (chunk == 1) break;
            }
            for (auto& e : script) if (e.kind == 0) vol1++;
          }
        }
        J rp = J::obj(); rp.set("engine", "sim_threads"); rp.set("seed", (int64_t) seed); rp.set("run", i); if (best < (int) plan.tasks.size()) rp.set("max_tasks", best);
        if (have_script) { J sc = J::arr(); for (auto& e : script) { J x = J::arr(); x.push(e.kind); x.push(e.at); x.push(e.to); sc.push(x); } rp.set("schedule", sc); rp.set("schedule_voluntary_switches", (int64_t) vol1); rp.set("schedule_voluntary_switches_before_minimisation", (int64_t) vol0); detail += " [explicit schedule: " + std::to_string(vol0) + " voluntary switches minimised to " + std::to_string(vol1) + "]"; }
        char hb[20]; snprintf(hb, sizeof hb, "%016llx", (unsigned long long) rep.sched_hash); rp.set("schedule_hash", hb); rp.set("plan", plan_brief(plan));
        emit_violation("C09", rep.klass, rep.sig, detail + " [" + std::to_string(best) + " tasks, " + std::to_string(rep.st.switches) + " context switches, policy " + std::to_string(plan.pol.kind) + "]", rp);
      }
      if (rep.klass == "deadlock" || rep.klass == "no-progress") { st.flush(); fflush(stdout); _exit(only >= 0 ? 0 : 3); }   // parked threads cannot be recovered: restart the worker after this run
    }
    if (st.samples.size() < 3) { J s = plan_brief(plan); s.set("context_switches", rep.st.switches); s.set("bb_yields", rep.st.yields_by_kind[YK_BB]); st.sample(s); }
    if (only < 0) { J e = J::obj(); e.set("t", "end"); emit_line(e); }
    if (st.hashes.size() > 500) st.flush(false);
  }
  if (cmd == "replay") { J done = J::obj(); done.set("t", "replayed"); emit_line(done); }
  st.flush();
  for (auto& s : shared) yr_rules_destroy(s.rules);
  yr_finalize();
  return 0;
}
