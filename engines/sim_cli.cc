// C18 — command-line results independent of thread count and rule form.
// The real `yara` and `yarac` mains run in forked children under the baton
// scheduler: producer + `-p N` consumers are real threads created through the
// pthread seam; directory order, stdout/stderr and exit are simulated.
#include "engine.h"
#include "simsched.h"
#include "cliseam.h"
#include <unistd.h>
#include <sys/stat.h>
#include <dirent.h>

extern "C" int yara_cli_main(int argc, const char** argv);
extern "C" int yarac_cli_main(int argc, const char** argv);

struct InvResult { int status = 0; int rc = -1; std::string out, err; int64_t switches = 0, threads = 0, blocked_sem = 0, blocked_mutex = 0, timed = 0, prints = 0; uint64_t hash = 0; std::string info; IsoResult iso; };

static SchedPolicy draw_policy(Rng& rng, int nthreads) {
  SchedPolicy p; p.kind = (int) rng.below(4);
  static const int dens[] = {1, 2, 4, 16, 64};
  for (int k = 0; k < 16; k++) p.switch_den[k] = dens[rng.below(5)];
  static const int adens[] = {64, 256, 1024}; p.switch_den[YK_ALLOC] = adens[rng.below(3)]; p.switch_den[YK_FREE] = adens[rng.below(3)]; p.switch_den[YK_BB] = dens[rng.below(3)];
  static const int64_t means[] = {200, 2000, 20000, 200000}; p.bb_mean = means[rng.below(4)];
  p.change_points = (int) rng.range(1, 5); p.sync_yields_estimate = 60 + 30 * nthreads; p.starved = (int) rng.below(nthreads + 1); p.max_steps = 20000000;
  return p;
}

static InvResult run_cli(bool yarac, const std::vector<std::string>& argv, uint64_t sched_seed, const SchedPolicy& pol, uint64_t dir_seed, int timeout_s = 120) {
  InvResult r;
  r.iso = sim_isolate([&] {
    // like a real process's argument area: the strings are followed by more readable bytes (cli/args.c looks at
    // arg[strlen(longest option name)] of every argument that starts with "--")
    static std::vector<std::vector<char>> store; store.clear(); for (auto& a : argv) { std::vector<char> c(a.size() + 64, 0); memcpy(c.data(), a.data(), a.size()); store.push_back(c); }
    std::vector<const char*> av; for (auto& c : store) av.push_back(c.data()); av.push_back(nullptr);
    g_cap = CliCapture(); g_cap.active = true; g_cap.scheduled = true; g_cap.dir_seed = dir_seed;
    sim_detheap_enable(); sim_detheap_reset();   // yara's heap addresses depend on this invocation only (they decide basic-block counts)
    g_alloc.junk_by_address = true;              // fresh memory is not zero and not the same everywhere: output that depends on an uninitialised field differs between invocations
    sim_clock_reset();
    static int rc; rc = -1; static bool exited; exited = false;
    auto emit = [](int status, const std::string& info) {
      const SchedStats& st = sched_stats();
      J j = J::obj(); j.set("status", status); j.set("rc", rc); j.set("out", g_cap.out); j.set("err", g_cap.err); j.set("switches", st.switches); j.set("threads", g_cap.threads_created); j.set("bsem", st.blocked_on_sem); j.set("bmutex", st.blocked_on_mutex); j.set("timed", st.timed_wakeups); j.set("prints", g_cap.print_calls);
      char hb[20]; snprintf(hb, sizeof hb, "%016llx", (unsigned long long) st.hash); j.set("hash", hb); j.set("info", info);
      iso_emit(j.dump() + "\n");
    };
    g_cap.on_exit = [&](int code) { rc = code; emit(0, "exit() called"); iso_emit(std::string("\x02") + "DONE\n"); };
    sched_begin(sched_seed, pol);
    sched_spawn([&] { rc = yarac ? yarac_cli_main((int) argv.size(), av.data()) : yara_cli_main((int) argv.size(), av.data()); });
    SchedStatus ss = sched_run();
    emit(ss == SCHED_OK ? 0 : ss == SCHED_DEADLOCK ? 1 : 2, sched_stats().deadlock_info);
    if (ss != SCHED_OK) { iso_emit(std::string("\x02") + "DONE\n"); SIM_GCOV_DUMP(); _exit(0); }
    sched_end();
  }, timeout_s);
  J j; size_t nl = r.iso.out.find('\n');
  if (r.iso.kind == 0 && nl != std::string::npos && J::parse(r.iso.out.substr(0, nl), j)) {
    r.status = (int) j["status"].num(); r.rc = (int) j["rc"].num(); r.out = j["out"].str(); r.err = j["err"].str(); r.switches = j["switches"].num(); r.threads = j["threads"].num(); r.blocked_sem = j["bsem"].num(); r.blocked_mutex = j["bmutex"].num(); r.timed = j["timed"].num(); r.prints = j["prints"].num(); r.hash = strtoull(j["hash"].str().c_str(), 0, 16); r.info = j["info"].str();
  } else r.status = r.iso.kind == 3 ? 4 : 3;
  return r;
}

// ---------------------------------------------------------------- workload ---
static const char* RULESETS[] = {
  "rule t_alpha : tagA tagB { meta: author = \"x\" n = 3 ok = true strings: $a = \"alpha_text\" $b = /reg[0-9]+ex/ $w = \"widestr\" wide condition: any of them }\n"
  "rule t_xor : tagB { strings: $x = \"xorsecret\" xor(1-255) condition: $x }\n"
  "rule t_fib { strings: $f = /x(a{1,3}){1,400}y/ condition: $f }\nrule t_big { condition: ext_big > 4294967296 }\n"
  "rule t_chain { strings: $c = { 43 48 41 49 [300-400] 4E 45 4E 44 } $x2 = \"xorsecret\" xor(1-255) condition: $c or $x2 }\nrule t_mz { condition: uint16(0) == 0x5a4d }\nrule t_ext { condition: ext_i == 7 }\nrule t_modext { condition: hash == 7 and filesize > 20 }\nrule t_deep { strings: $m = \"reg7ex\" condition: $m and (1 + (1 + (1 + (1 + (1 + (1 + (1 + (1 + (1 + (1 + (1 + (1 + (1 + (1 + (1 + (1 + (1 + (1 + (1 + (1 + (1 + (1 + (1 + (1 + filesize)))))))))))))))))))))))) > 24 }\nrule t_small : tagA { condition: filesize < 100 }\nprivate rule t_priv { condition: true }\nrule t_dep { condition: t_priv and filesize > 5 }\n",
  "import \"pe\"\nimport \"elf\"\nimport \"console\"\nglobal rule g_nonempty { condition: filesize > 0 }\n"
  "rule m_pe : bin { condition: pe.number_of_sections > 0 }\nrule m_elf : bin { condition: elf.type == elf.ET_DYN or elf.type == elf.ET_EXEC }\n"
  "rule m_many : text { strings: $a = \"ab\" $h = { 61 62 ?? 61 } condition: #a > 2 or $h }\nrule m_ext : text { condition: ext_i == 7 and ext_s contains \"ne\" and ext_big != 5 }\nrule m_log : text { condition: console.log(\"size \", filesize) and filesize < 60 }\nrule m_modext : text { condition: hash == 7 and filesize < 40 }\nrule m_deep { condition: filesize > 4 and uint32(0) == 0x464c457f and (1 + (1 + (1 + (1 + (1 + (1 + (1 + (1 + (1 + (1 + (1 + (1 + (1 + (1 + (1 + (1 + (1 + (1 + (1 + (1 + (1 + (1 + (1 + (1 + filesize)))))))))))))))))))))))) > 24 }\n",
};
static const int NRULESETS = 2;

static std::vector<std::string> make_contents() {
  std::vector<std::string> c;
  c.push_back("some alpha_text here and reg42ex too\n"); c.push_back(corpus_file("tiny")); c.push_back(corpus_file("elf_with_imports")); c.push_back("");
  c.push_back("nothing interesting in this file at all, just filler text to get past one hundred bytes of content ........\n");
  { std::string w; for (const char* p = "widestr"; *p; p++) { w += *p; w += '\0'; } c.push_back("xx" + w + "yy alpha_text alpha_text"); }
  { std::string x = "\x22\x35\x28\x29\x3f\x39\x28\x3f\x2e"; c.push_back("pad " + x + " pad reg7ex"); }
  { std::string m; for (int i = 0; i < 60; i++) m += "ab"; c.push_back(m); }
  c.push_back("MZ not really a pe file"); c.push_back("tiny"); c.push_back("x" + std::string(3000, 'a') + "y"); c.push_back("..xaay.. xaaay"); c.push_back(std::string(5000, 'z') + "alpha_text"); c.push_back("abxa abya");
  c.push_back("CHAI" + std::string(340, '.') + "NEND and a second CHAI" + std::string(310, '-') + "NEND");   // chained hex string of t_chain
  { std::string m; for (int i = 0; i < 150; i++) m += "ab"; c.push_back(m + " reg7ex"); }   // > YR_MAX_STRING_MATCHES (96 in this build) matches of m_many.$a: a warning, an error with --fail-on-warnings
  return c;
}

struct Tree { std::string root; std::vector<std::pair<std::string, int>> files; std::vector<std::pair<std::string, int>> links; int skipped_links = 0; };   // (path, content id); links: symlinks to regular files
static void mkdirs(const std::string& p) { std::string cmd; size_t pos = 0; while ((pos = p.find('/', pos + 1)) != std::string::npos) mkdir(p.substr(0, pos).c_str(), 0755); mkdir(p.c_str(), 0755); }
static void rm_rf(const std::string& p) { std::string cmd = "rm -rf '" + p + "'"; if (system(cmd.c_str())) {} }

static Tree make_tree(Rng& rng, const std::vector<std::string>& contents, const std::string& root, bool nested, int nfiles) {
  Tree t; t.root = root; rm_rf(root); mkdirs(root);
  std::vector<std::string> dirs{root};
  if (nested) { int nd = (int) rng.range(1, 5); for (int i = 0; i < nd; i++) { std::string d = dirs[rng.below(dirs.size())] + (rng.chance(1, 6) ? "/..d" : rng.chance(1, 6) ? "/.d" : "/d") + std::to_string(i); mkdirs(d); dirs.push_back(d); } }
  for (int i = 0; i < nfiles; i++) {
    int cid = (int) rng.below(contents.size());
    // names a directory walk must not lose: hidden files, names that merely start with "..", a space in the name
    const char* pre = rng.chance(1, 25) ? "unreadable_" : rng.chance(1, 14) ? "..f" : rng.chance(1, 14) ? ".f" : rng.chance(1, 14) ? "f f" : "f";
    std::string name = pre + std::to_string(i) + (rng.chance(1, 5) ? ".bin" : ".txt");
    std::string path = dirs[nested ? rng.below(dirs.size()) : 0] + "/" + name;
    write_file(path, contents[cid]); t.files.push_back({path, cid});
  }
  // symbolic links: to regular files of the tree (scanned under the link's path unless -N), to "." and ".." and to nowhere (never scanned)
  int nl = rng.chance(1, 2) ? (int) rng.below(5) : 0;
  for (int i = 0; i < nl && !t.files.empty(); i++) {
    std::string dir = dirs[nested ? rng.below(dirs.size()) : 0]; std::string lp = dir + "/ln" + std::to_string(i) + ".txt";
    int kind = (int) rng.below(6);
    if (kind == 0) { if (symlink(".", lp.c_str()) == 0) t.skipped_links++; }
    else if (kind == 1) { if (symlink("..", lp.c_str()) == 0) t.skipped_links++; }
    else if (kind == 2) { if (symlink("no_such_target", lp.c_str()) == 0) t.skipped_links++; }
    else {
      auto& f = t.files[rng.below(t.files.size())]; if (f.first.find("unreadable") != std::string::npos) continue;
      std::string target = f.first;
      if (kind == 3) {   // relative target that starts with "..": ../<this directory>/<file>, the link sits next to the file
        size_t sl = f.first.rfind('/'); std::string fdir = f.first.substr(0, sl), fname = f.first.substr(sl + 1); size_t s2 = fdir.rfind('/');
        lp = fdir + "/lnrel" + std::to_string(i) + ".txt"; target = "../" + fdir.substr(s2 + 1) + "/" + fname;
      }
      if (symlink(target.c_str(), lp.c_str()) == 0) t.links.push_back({lp, f.second});
    }
  }
  return t;
}

struct Opts { std::vector<std::string> flags; bool recursive = false, count = false, negate = false, limit = false, nofollow = false; int threads = 1; bool ext_at_compile = false; int ruleset = 0; };
static Opts draw_opts(Rng& rng) {
  Opts o; o.ruleset = (int) rng.below(NRULESETS);
  static const char* simple[] = {"-s", "-L", "-X", "-m", "-g", "-e", "-f", "-w"};
  for (const char* f : simple) if (rng.chance(1, 3)) o.flags.push_back(f);
  if (rng.chance(1, 6)) { o.flags.push_back("-c"); o.count = true; }
  if (rng.chance(1, 8)) { o.flags.push_back("-n"); o.negate = true; }
  if (rng.chance(1, 8)) { o.flags.push_back("-t"); o.flags.push_back(o.ruleset == 0 ? "tagB" : "text"); }
  if (rng.chance(1, 8)) { o.flags.push_back("-i"); o.flags.push_back(o.ruleset == 0 ? "t_alpha" : "m_many"); }
  if (rng.chance(1, 12)) { o.flags.push_back("-l"); o.flags.push_back("1"); o.limit = true; }
  if (rng.chance(1, 8)) o.flags.push_back("--fail-on-warnings");
  if (rng.chance(1, 6)) { o.flags.push_back("-k"); o.flags.push_back("16"); }      // evaluation stack of 16 slots: enough for every rule except t_deep / m_deep, which overflow it on the files where the part before `and` holds
  if (rng.chance(1, 5)) { o.flags.push_back("-N"); o.nofollow = true; }
  o.recursive = rng.chance(1, 2);
  static const int ths[] = {1, 2, 3, 4, 8, 16, 32}; o.threads = ths[rng.below(7)];
  o.ext_at_compile = rng.chance(1, 2);
  return o;
}
// `hash` is the name of a built-in module that the rule sets do not import
static std::vector<std::string> ext_args() { return {"-d", "ext_i=7", "-d", "ext_s=needle", "-d", "ext_big=4294967396", "-d", "hash=7"}; }

// records: a rule line and the string lines ("0x...") that follow it
static std::multiset<std::string> records(const std::string& out, int* torn = nullptr) {
  std::multiset<std::string> m; std::string cur; size_t p = 0; bool have = false;
  while (p < out.size()) {
    size_t e = out.find('\n', p); std::string l = out.substr(p, e == std::string::npos ? std::string::npos : e - p + 1); p = e == std::string::npos ? out.size() : e + 1;
    if (l.rfind("0x", 0) == 0) { if (!have && torn) (*torn)++; cur += l; have = true; }
    else { if (have) m.insert(cur); cur = l; have = true; }
  }
  if (have && !cur.empty()) m.insert(cur);
  return m;
}
static std::multiset<std::string> lines(const std::string& s) { std::multiset<std::string> m; size_t p = 0; while (p < s.size()) { size_t e = s.find('\n', p); m.insert(s.substr(p, e == std::string::npos ? std::string::npos : e - p)); p = e == std::string::npos ? s.size() : e + 1; } return m; }
static std::string replace_all(std::string s, const std::string& a, const std::string& b) { size_t p = 0; while ((p = s.find(a, p)) != std::string::npos) { s.replace(p, a.size(), b); p += b.size(); } return s; }

struct RefKey { int ruleset; std::string flags; int cid; bool unreadable; bool operator<(const RefKey& o) const { return std::tie(ruleset, flags, cid, unreadable) < std::tie(o.ruleset, o.flags, o.cid, o.unreadable); } };
struct Ref { std::string out, err; int rc; std::string single_diff; };
static std::map<RefKey, Ref> g_refs;
static int64_t g_ref_runs = 0;
static const char* P0 = "@@PATH@@";

static std::string join(const std::vector<std::string>& v) { std::string s; for (auto& x : v) { s += x; s += ' '; } return s; }

// single-threaded, single-file reference through the same code path (scan-list of one path)
static const Ref& reference(const std::string& workdir, const Opts& o, const std::string& rules_path, int cid, bool unreadable, const std::vector<std::string>& contents) {
  RefKey k{o.ruleset, join(o.flags), cid, unreadable};
  auto it = g_refs.find(k); if (it != g_refs.end()) return it->second;
  std::string dir = workdir + "/ref"; mkdirs(dir);
  std::string path = dir + (unreadable ? "/unreadable_ref" : "/ref_file"); write_file(path, contents[cid]);
  std::string list = workdir + "/ref.list"; write_file(list, path + "\n");
  std::vector<std::string> av{"yara", "-p", "1"}; for (auto& f : o.flags) av.push_back(f); for (auto& e : ext_args()) av.push_back(e); av.push_back("--scan-list"); av.push_back(rules_path); av.push_back(list);
  SchedPolicy pol; pol.kind = 2; pol.switch_den[0] = 64; pol.bb_mean = 1000000; pol.max_steps = 50000000;
  InvResult r = run_cli(false, av, 1, pol, 1); g_ref_runs++;
  Ref ref; ref.out = replace_all(r.out, path, P0); ref.err = replace_all(r.err, path, P0); ref.rc = r.status == 0 ? r.rc : -100 - r.status;
  // the literal per-file invocation of the property, `yara [options] RULES FILE` (main's own single-file path, no queue,
  // no scanning thread): its records must be the ones of the list-of-one run, and it must fail exactly when it reports an error
  { Hash64 hk; hk.add(k.flags); hk.addu(k.cid); hk.addu(k.ruleset); if (hk.h & 1) {
    std::vector<std::string> sv{"yara"}; for (auto& f : o.flags) sv.push_back(f); for (auto& e : ext_args()) sv.push_back(e); sv.push_back(rules_path); sv.push_back(path);
    InvResult s1 = run_cli(false, sv, 1, pol, 1); g_ref_runs++;
    std::string so = replace_all(s1.out, path, P0), se = replace_all(s1.err, path, P0);
    if (s1.status != 0) ref.single_diff = "single-file invocation did not terminate normally (status " + std::to_string(s1.status) + ") " + s1.iso.err.substr(0, 300);
    else if (o.count) { // `-c` prints "<path>: <n>" in list mode and "<n>" for a single file
      std::string a = replace_all(ref.out, std::string(P0) + ": ", ""), b = so;
      if (a != b && !(ref.rc != 0 || !ref.err.empty())) ref.single_diff = "count differs: list-of-one prints '" + ref.out.substr(0, 80) + "', single file prints '" + so.substr(0, 80) + "'"; }
    else if (records(so) != records(ref.out)) ref.single_diff = "records differ: single file prints '" + so.substr(0, 160) + "', list-of-one prints '" + ref.out.substr(0, 160) + "'";
    if (ref.single_diff.empty() && s1.status == 0) { bool err_printed = se.find("error") != std::string::npos; if ((s1.rc != 0) != err_printed) ref.single_diff = "exit status " + std::to_string(s1.rc) + " with stderr '" + se.substr(0, 160) + "'"; }
  } }
  return g_refs[k] = ref;
}

struct Verdict { std::string sig, klass, detail; };

static Verdict judge(const InvResult& r, const std::multiset<std::string>& exp_records, const std::multiset<std::string>& exp_err, bool any_ref_error, const Opts& o, const std::string& what, const std::multiset<std::string>* exp_unlimited = nullptr) {
  Verdict v;
  std::string mode = o.limit ? "limit-option" : "plain";
  if (r.status == 3) { v.klass = "crash"; v.sig = "cli|" + what + "|crash|" + sim_crash_signature(r.iso); v.detail = r.iso.err.substr(0, 2500); return v; }
  if (r.status == 4) { v.klass = "hang"; v.sig = "cli|" + what + "|hang"; v.detail = "the invocation did not finish within the wall-clock guard"; return v; }
  if (r.status == 1) { v.klass = "deadlock"; v.sig = "cli|" + what + "|deadlock"; v.detail = r.info; return v; }
  if (r.status == 2) { v.klass = "no-progress"; v.sig = "cli|" + what + "|step-budget"; v.detail = "step budget exhausted"; return v; }
  // without -a the deadline is ~11 days away: a wait that only ends by that timeout is a hang in real life
  if (r.timed > 0) { v.klass = "no-progress"; v.sig = "cli|" + what + "|terminates-only-by-timeout"; v.detail = std::to_string(r.timed) + " semaphore wait(s) ended only because simulated time was advanced to the scan deadline"; return v; }
  int torn = 0; std::multiset<std::string> got = records(r.out, &torn);
  if (o.limit && exp_unlimited && !o.count) {
    int ng = 0; std::string first; for (auto& x : got) if (exp_unlimited->count(x) < got.count(x)) { if (first.empty()) first = x.substr(0, 200); ng++; }
    if (ng) { v.klass = "output-differs"; v.sig = "cli|" + what + "|limit-superset|records-not-printed-by-any-unlimited-per-file-scan"; v.detail = std::to_string(ng) + " record(s) printed under -l that the same file's scan without -l does not print, e.g. '" + first + "'"; return v; }
  }
  if (got != exp_records) {
    std::string only_exp, only_got; int ne = 0, ng = 0;
    for (auto& x : exp_records) if (got.count(x) < exp_records.count(x)) { if (only_exp.empty()) only_exp = x.substr(0, 200); ne++; }
    for (auto& x : got) if (exp_records.count(x) < got.count(x)) { if (only_got.empty()) only_got = x.substr(0, 200); ng++; }
    std::string kind = ne && ng ? "records-differ" : ne ? "records-missing" : "records-extra";
    v.klass = "output-differs"; v.sig = "cli|" + what + "|" + mode + "|" + kind; v.detail = std::to_string(ne) + " expected record(s) missing, " + std::to_string(ng) + " unexpected; e.g. missing '" + only_exp + "' unexpected '" + only_got + "'"; return v;
  }
  if (lines(r.err) != exp_err) {
    std::multiset<std::string> got_err = lines(r.err); std::string oe, og;
    for (auto& x : exp_err) if (got_err.count(x) < exp_err.count(x)) { oe = x; break; }
    for (auto& x : got_err) if (exp_err.count(x) < got_err.count(x)) { og = x; break; }
    v.klass = "diagnostics-differ"; v.sig = "cli|" + what + "|" + mode + "|stderr-differs"; v.detail = "stderr differs from the per-file runs: expected-only '" + oe.substr(0, 250) + "' got-only '" + og.substr(0, 250) + "'"; return v; }
  bool error_printed = r.err.find("error") != std::string::npos;
  if ((r.rc != 0) != error_printed) { v.klass = "exit-status"; v.sig = std::string("cli|") + what + "|exit-status|" + (error_printed ? "zero-although-error-reported" : "nonzero-without-error"); v.detail = "exit status " + std::to_string(r.rc) + ", stderr: '" + r.err.substr(0, 200) + "'"; return v; }
  (void) any_ref_error;
  return v;
}

struct Case { uint64_t seed; int64_t run; };

static void run_case(uint64_t seed, int64_t run, bool thorough, const std::vector<std::string>& contents, Stats& st, std::set<std::string>& reported, bool replaying) {
  Rng rng(sim_run_seed(seed, run));
  std::string work = tmp_dir() + "/cli"; mkdirs(work);
  // the option set is shared by six consecutive runs of a worker (runs are dealt round-robin to 16 shards): the
  // per-file reference invocations, which depend on the options, are then computed once per group instead of once per
  // run, and the time goes into schedules.  A function of (seed, run) only, whatever the worker count.
  Rng orng(sim_run_seed(seed ^ 0x6f7074696f6e73ULL, (uint64_t) ((run / 16) / 6) * 16 + (uint64_t) (run % 16)));
  Opts o = draw_opts(orng);
  int nfiles = rng.chance(1, 4) ? (int) rng.range(66, thorough ? 200 : 140) : (int) rng.range(1, 40);
  Tree tree = make_tree(rng, contents, work + "/tree", o.recursive, nfiles);
  std::string rules_path = work + "/rules" + std::to_string(o.ruleset) + ".yar"; write_file(rules_path, RULESETS[o.ruleset]);
  bool use_list = rng.chance(1, 5);
  // files the walk will reach
  std::vector<std::pair<std::string, int>> reach;
  for (auto& f : tree.files) { bool top = f.first.find('/', tree.root.size() + 1) == std::string::npos; if (o.recursive || top || use_list) reach.push_back(f); }
  // a scan list names paths directly (links are opened through); a directory walk skips links under -N
  for (auto& f : tree.links) { bool top = f.first.find('/', tree.root.size() + 1) == std::string::npos; if (use_list || (!o.nofollow && (o.recursive || top))) reach.push_back(f); }
  st.c["tree.symlinks_to_files"] += tree.links.size(); st.c["tree.symlinks_never_scanned"] += tree.skipped_links;
  // expectation from per-file references
  std::multiset<std::string> exp_rec, exp_err; bool ref_err = false;
  for (auto& f : reach) {
    bool unread = f.first.find("unreadable") != std::string::npos;
    const Ref& ref = reference(work, o, rules_path, f.second, unread, contents);
    for (auto& x : records(replace_all(ref.out, P0, f.first))) exp_rec.insert(x);
    for (auto& x : lines(replace_all(ref.err, P0, f.first))) exp_err.insert(x);
    if (ref.rc != 0) ref_err = true;
    if (!ref.single_diff.empty() && reported.insert("cli|single-file|differs-from-list-of-one").second) { st.c["viol.single-file"]++; J rp = J::obj(); rp.set("engine", "sim_cli"); rp.set("seed", (int64_t) seed); rp.set("run", run); rp.set("thorough", thorough); emit_violation("C18", "single-file", "cli|single-file|differs-from-list-of-one", "`yara " + join(o.flags) + "RULES FILE` against the same file scanned as a list of one: " + ref.single_diff, rp); }
  }
  // under -l the comparison above is a known finding (one process-wide counter); what must still hold is that nothing
  // is printed that the file's own unlimited scan would not print
  std::multiset<std::string> exp_unlimited;
  if (o.limit) {
    Opts u = o; u.limit = false; u.flags.clear(); for (size_t i = 0; i < o.flags.size(); i++) { if (o.flags[i] == "-l") { i++; continue; } u.flags.push_back(o.flags[i]); }
    for (auto& f : reach) { bool unread = f.first.find("unreadable") != std::string::npos; const Ref& ref = reference(work, u, rules_path, f.second, unread, contents); for (auto& x : records(replace_all(ref.out, P0, f.first))) exp_unlimited.insert(x); }
  }
  std::vector<std::string> av{"yara", "-p", std::to_string(o.threads)}; for (auto& f : o.flags) av.push_back(f); for (auto& e : ext_args()) av.push_back(e);
  if (o.recursive && !use_list) av.push_back("-r");
  std::string target = tree.root;
  if (use_list) { std::string l; for (auto& f : reach) l += f.first + "\n"; target = work + "/scan.list"; write_file(target, l); av.push_back("--scan-list"); }
  std::vector<std::string> av_src = av; av_src.push_back(rules_path); av_src.push_back(target);
  SchedPolicy pol = draw_policy(rng, o.threads);
  uint64_t sseed = rng.next(), dseed = rng.next();
  InvResult r = run_cli(false, av_src, sseed, pol, dseed);
  st.runs++; st.c["cli_invocations"]++; st.c["faults_fired.context_switch"] += r.switches; st.c["faults_fired.blocked_on_semaphore"] += r.blocked_sem; st.c["faults_fired.blocked_on_mutex"] += r.blocked_mutex; st.c["files_scanned"] += reach.size();
  st.c["max.threads"] = std::max<int64_t>(st.c["max.threads"], r.threads); if (nfiles > 64) st.c["probe.more_files_than_queue_slots"]++; if (r.blocked_sem) st.c["probe.runs_with_blocked_semaphore_wait"]++;
  for (auto& f : reach) if (f.first.find("unreadable") != std::string::npos) st.c["faults_fired.file_unreadable"]++;
  if (r.switches) st.hash(r.hash);
  if (getenv("SIM_DUMP_HASHES")) { J h = J::obj(); h.set("t", "rh"); h.set("run", run); char b[64]; snprintf(b, sizeof b, "%016llx:%lld:%zu", (unsigned long long) r.hash, (long long) r.switches, r.out.size()); h.set("h", b); emit_line(h); }
  auto report = [&](const Verdict& v) { if (v.sig.empty()) return; st.c["viol." + v.klass]++; if (reported.insert(v.sig).second || replaying) { J rp = J::obj(); rp.set("engine", "sim_cli"); rp.set("seed", (int64_t) seed); rp.set("run", run); rp.set("thorough", thorough); emit_violation("C18", v.klass, v.sig, v.detail + " [yara " + join(av) + "; " + std::to_string(reach.size()) + " files, policy " + std::to_string(pol.kind) + ", " + std::to_string(r.switches) + " switches]", rp); } };
  report(judge(r, exp_rec, exp_err, ref_err, o, use_list ? "scan-list" : "directory", &exp_unlimited));
  // rules pre-compiled by yarac give the same output
  if (rng.chance(1, 3) && r.status == 0) {
    std::string yarc = work + "/rules.yarc"; unlink(yarc.c_str());
    std::vector<std::string> cav{"yarac"}; if (o.ext_at_compile) for (auto& e : ext_args()) cav.push_back(e); else { cav.push_back("-d"); cav.push_back("ext_i=0"); cav.push_back("-d"); cav.push_back("ext_s=t_alpha"); cav.push_back("-d"); cav.push_back("ext_big=0"); cav.push_back("-d"); cav.push_back("hash=0"); }
    cav.push_back(rules_path); cav.push_back(yarc);
    SchedPolicy p1; p1.kind = 2; p1.switch_den[0] = 64; p1.bb_mean = 1000000; p1.max_steps = 50000000;
    InvResult c = run_cli(true, cav, 1, p1, 1); st.c["cli_invocations"]++;
    if (c.status != 0 || c.rc != 0) { Verdict v; v.klass = "yarac-failed"; v.sig = "cli|yarac|failed"; v.detail = "yarac rc=" + std::to_string(c.rc) + " status=" + std::to_string(c.status) + " " + c.err.substr(0, 300) + c.iso.err.substr(0, 500); report(v); }
    else {
      std::vector<std::string> av_c = av; av_c.push_back("-C"); av_c.push_back(yarc); av_c.push_back(target);
      InvResult rc2 = run_cli(false, av_c, sseed ^ 0x77, pol, dseed); st.c["cli_invocations"]++; st.c["compiled_rule_runs"]++;
      if (rc2.switches) st.hash(rc2.hash);
      report(judge(rc2, exp_rec, exp_err, ref_err, o, "compiled-rules", &exp_unlimited));
    }
  }
  if (st.samples.size() < 3) { J s = J::obj(); s.set("argv", join(av)); s.set("files", (int64_t) reach.size()); s.set("threads", o.threads); s.set("switches", r.switches); s.set("blocked_on_semaphore", r.blocked_sem); s.set("stdout_records", (int64_t) exp_rec.size()); st.sample(s); }
  rm_rf(tree.root);
}

// C17 through the command line: `yarac` writes a rule file, the writer "crashes" after n bytes, `yara -C` must refuse
// the prefix with an error (never scan with it, never quietly treat it as something else)
static void run_c17cli(uint64_t seed, int64_t run, bool thorough, Stats& st, std::set<std::string>& reported, int64_t only_n = -1) {
  Rng rng(sim_run_seed(seed, 777000 + run));
  std::string work = tmp_dir() + "/c17cli"; mkdirs(work);
  int rs = (int) rng.below(NRULESETS);
  std::string rules_path = work + "/rules.yar", yarc = work + "/rules.yarc", target = work + "/target.txt";
  write_file(rules_path, RULESETS[rs]); write_file(target, "some alpha_text here and reg42ex too abab abab\n"); unlink(yarc.c_str());
  SchedPolicy p1; p1.kind = 2; p1.switch_den[0] = 64; p1.bb_mean = 1000000; p1.max_steps = 50000000;
  std::vector<std::string> cav{"yarac"}; for (auto& e : ext_args()) cav.push_back(e); cav.push_back(rules_path); cav.push_back(yarc);
  InvResult c = run_cli(true, cav, 1, p1, 1);
  bool ok; std::string image = read_file(yarc, &ok);
  if (c.status != 0 || c.rc != 0 || !ok || image.size() < 20) { emit_note("c17cli: yarac failed"); return; }
  std::set<size_t> cuts; if (only_n >= 0) cuts.insert((size_t) only_n);
  else { for (size_t n = 0; n <= 7; n++) cuts.insert(n); cuts.insert(6 + 12 * (unsigned char) image[5]); cuts.insert(image.size() - 1); cuts.insert(image.size() - 8); int extra = thorough ? 24 : 6; for (int k = 0; k < extra; k++) cuts.insert(rng.below(image.size())); }
  for (size_t n : cuts) {
    std::string cut = work + "/cut.yarc"; write_file(cut, image.substr(0, n));
    // half of the invocations also pass -d: externals are applied to the loaded rules after the load
    std::vector<std::string> av{"yara", "-p", "1"}; if (sim_mix64(seed * 1000003 + (uint64_t) run * 8191 + n) & 1) { for (auto& e : ext_args()) av.push_back(e); st.c["cli_load_with_externals"]++; }   /* a function of (seed, run, n): the replay makes the same choice */ av.push_back("-C"); av.push_back(cut); av.push_back(target);
    InvResult r = run_cli(false, av, rng.next(), p1, 1);
    st.runs++; st.c["faults_fired.rule_file_cut_at_byte_n"]++; st.c["cli_invocations"]++;
    Hash64 h; h.add("c17cli"); h.addu(run); h.addu(n); st.hash(h.h);
    std::string sig, klass, detail;
    if (r.status == 3) { klass = "crash"; sig = "cli-load|crash|" + sim_crash_signature(r.iso); detail = r.iso.err.substr(0, 1500); }
    else if (r.status != 0) { klass = "hang"; sig = "cli-load|no-termination"; }
    else if (r.rc == 0 || r.err.empty()) { klass = "truncated-file-loaded"; sig = std::string("cli-load|prefix-accepted|") + (n == 0 ? "empty-file" : n < 6 ? "inside-header" : "beyond-header"); detail = "yara -C on a " + std::to_string(n) + "-byte prefix of a " + std::to_string(image.size()) + "-byte rule file exited " + std::to_string(r.rc) + " with stderr '" + r.err.substr(0, 120) + "' and stdout '" + r.out.substr(0, 120) + "'"; }
    else if (!r.out.empty()) { klass = "truncated-file-loaded"; sig = "cli-load|output-despite-error"; detail = r.out.substr(0, 200); }
    if (!sig.empty()) { st.c["viol." + klass]++; if (reported.insert(sig).second || only_n >= 0) { J rp = J::obj(); rp.set("engine", "sim_cli"); rp.set("c17cli", true); rp.set("seed", (int64_t) seed); rp.set("run", run); rp.set("n", (int64_t) n); emit_violation("C17", klass, sig, detail, rp); } }
    if (st.samples.size() < 2) { J s = J::obj(); s.set("image_bytes", (int64_t) image.size()); s.set("cut_at", (int64_t) n); s.set("exit", r.rc); s.set("stderr", r.err.substr(0, 100)); st.sample(s); }
  }
}


// C20 through the command line: `-d id=value` at every level the CLI offers (compile time for `yara RULES`,
// compile time for `yarac`, rule-set level for `yara -C ... -d`) must make the rules behave as if the value had
// been written as a literal of the same type.  Expectation: the literal twin, run through the same binary.
struct DVal { const char* text; const char* literal; char type; };
static const DVal DVALS[] = {
  {"7", "7", 'i'}, {"0", "0", 'i'}, {"-3", "(-3)", 'i'}, {"010", "10", 'i'}, {"0099", "99", 'i'}, {"2147483647", "2147483647", 'i'}, {"2147483648", "2147483648", 'i'},
  {"4294967396", "4294967396", 'i'}, {"-2147483649", "(-2147483649)", 'i'}, {"9223372036854775807", "9223372036854775807", 'i'},
  {"2.5", "2.5", 'f'}, {"-0.5", "(-0.5)", 'f'}, {"10.0", "10.0", 'f'}, {"007.250", "7.25", 'f'},
  {"true", "true", 'b'}, {"false", "false", 'b'},
  {"needle", "\"needle\"", 's'}, {"hay needle", "\"hay needle\"", 's'}, {"007x", "\"007x\"", 's'}, {"1e5", "\"1e5\"", 's'}, {"True", "\"True\"", 's'}, {"-", "\"-\"", 's'}, {"a=b", "\"a=b\"", 's'},
};
static const int NDVALS = sizeof(DVALS) / sizeof(DVALS[0]);
static std::string dval_rules(const DVal& d, const std::string& v) {
  if (d.type == 'i') return "rule d_eq7 { condition: " + v + " == 7 }\nrule d_pos { condition: " + v + " > 0 }\nrule d_big { condition: " + v + " > 4294967296 }\nrule d_i32 { condition: " + v + " >= 2147483647 }\nrule d_small { condition: " + v + " < 50 }\nrule d_ten { condition: " + v + " == 10 or " + v + " == 99 }\nrule d_at { strings: $a = \"alpha_text\" condition: $a at " + v + " - 2 }\nrule d_neg { condition: " + v + " < -2147483648 }\n";
  if (d.type == 'f') return "rule d_f1 { condition: " + v + " > 2.0 and " + v + " < 3.0 }\nrule d_f2 { condition: " + v + " < 0.0 }\nrule d_f3 { condition: " + v + " == 10.0 or " + v + " == 7.25 }\n";
  if (d.type == 'b') return "rule d_b { condition: " + v + " }\nrule d_nb { condition: not " + v + " }\n";
  return "rule d_s1 { condition: " + v + " contains \"needle\" }\nrule d_s2 { condition: " + v + " == \"007x\" or " + v + " == \"1e5\" or " + v + " == \"True\" or " + v + " == \"-\" or " + v + " == \"a=b\" }\nrule d_s3 { condition: " + v + " matches /^hay / }\n";
}
// definitions the library rejects (unknown identifier, wrong type) and malformed -d arguments: the command line must
// say so and fail, wherever the bad definition stands among several
struct BadDef { const char* name; std::vector<std::string> defs; bool compiled; };
static const BadDef BADDEFS[] = {
  {"unknown-identifier-first", {"-d", "nosuch=1", "-d", "v=7"}, true}, {"unknown-identifier-last", {"-d", "v=7", "-d", "nosuch=1"}, true},
  {"wrong-type-first", {"-d", "v=abc", "-d", "w=2"}, true}, {"wrong-type-last", {"-d", "w=2", "-d", "v=abc"}, true}, {"wrong-type-float", {"-d", "v=2.5"}, true},
  {"no-equal-sign-compiled", {"-d", "v"}, true}, {"no-equal-sign-source", {"-d", "w"}, false},
};
static const int NBADDEFS = sizeof(BADDEFS) / sizeof(BADDEFS[0]);
static void run_c20cli_bad(uint64_t seed, int64_t run, int which, Stats& st, std::set<std::string>& reported, bool replaying) {
  const BadDef& b = BADDEFS[which];
  std::string work = tmp_dir() + "/c20cli"; mkdirs(work);
  std::string rules = work + "/bad.yar", yarc = work + "/bad.yarc", target = work + "/target.txt";
  write_file(rules, "rule r_v { condition: v == 7 }\nrule r_w { condition: w == 2 }\n"); write_file(target, "some text\n"); unlink(yarc.c_str());
  SchedPolicy p1; p1.kind = 2; p1.switch_den[0] = 64; p1.bb_mean = 1000000; p1.max_steps = 50000000;
  InvResult got;
  if (b.compiled) {
    InvResult c = run_cli(true, {"yarac", "-d", "v=1", "-d", "w=1", rules, yarc}, 1, p1, 1); st.c["cli_invocations"]++;
    if (c.status != 0 || c.rc != 0) { emit_note("c20cli: yarac failed for the rejected-definition cases"); return; }
    std::vector<std::string> av{"yara"}; for (auto& d : b.defs) av.push_back(d); av.push_back("-C"); av.push_back(yarc); av.push_back(target);
    got = run_cli(false, av, 1, p1, 1);
  } else {
    std::vector<std::string> av{"yara", "-d", "v=7"}; for (auto& d : b.defs) av.push_back(d); av.push_back(rules); av.push_back(target);
    got = run_cli(false, av, 1, p1, 1);
  }
  st.runs++; st.c["cli_invocations"]++; st.c["c20cli.rejected_definition_cases"]++; st.c["faults_fired.invalid_define_on_command_line"]++;
  Hash64 h; h.add("c20bad"); h.addu(which); st.hash(h.h);
  std::string sig, klass, detail; std::string at = std::string("yara ") + join(b.defs) + (b.compiled ? "-C RULES.yarc FILE" : "RULES FILE") + ": ";
  if (got.status == 3) { klass = "crash"; sig = std::string("cli-ext|rejected-definition|") + b.name + "|crash|" + sim_crash_signature(got.iso); detail = at + got.iso.err.substr(0, 1000); }
  else if (got.status != 0) { klass = "hang"; sig = std::string("cli-ext|rejected-definition|") + b.name + "|no-termination"; detail = at; }
  else if (got.rc == 0 || got.err.empty()) { klass = "invalid-definition-not-reported"; sig = std::string("cli-ext|rejected-definition|") + b.name + (got.rc == 0 ? "|exit-status-zero" : "|no-diagnostic"); detail = at + "exit status " + std::to_string(got.rc) + ", stderr '" + got.err.substr(0, 160) + "', stdout '" + replace_all(got.out, target, "F").substr(0, 120) + "'"; }
  if (!sig.empty()) { st.c["viol." + klass]++; if (reported.insert(sig).second || replaying) { J rp = J::obj(); rp.set("engine", "sim_cli"); rp.set("c20cli", true); rp.set("seed", (int64_t) seed); rp.set("run", run); emit_violation("C20", klass, sig, detail, rp); } }
}

static void run_c20cli(uint64_t seed, int64_t run, Stats& st, std::set<std::string>& reported, bool replaying) {
  if (run >= (int64_t) NDVALS * 3) { run_c20cli_bad(seed, run, (int) ((run - NDVALS * 3) % NBADDEFS), st, reported, replaying); return; }
  const DVal& d = DVALS[run % NDVALS]; int level = (int) ((run / NDVALS) % 3);   // 0: yara RULES, 1: yarac -d then yara -C, 2: yarac with a placeholder then yara -C -d
  static const char* LV[] = {"yara-source", "yarac-define", "compiled-rules-redefine"};
  std::string work = tmp_dir() + "/c20cli"; mkdirs(work);
  std::string ext_rules = work + "/ext.yar", lit_rules = work + "/lit.yar", yarc = work + "/ext.yarc", target = work + "/target.txt";
  write_file(ext_rules, dval_rules(d, "v")); write_file(lit_rules, dval_rules(d, d.literal)); write_file(target, "xxxxxalpha_text and more text\n"); unlink(yarc.c_str());
  SchedPolicy p1; p1.kind = 2; p1.switch_den[0] = 64; p1.bb_mean = 1000000; p1.max_steps = 50000000;
  std::string def = std::string("v=") + d.text;
  static const char* PLACE[] = {"v=1", "v=1.5", "v=true", "v=placeholder"}; const char* place = d.type == 'i' ? PLACE[0] : d.type == 'f' ? PLACE[1] : d.type == 'b' ? PLACE[2] : PLACE[3];
  InvResult lit = run_cli(false, {"yara", lit_rules, target}, 1, p1, 1); st.c["cli_invocations"]++;
  InvResult got;
  if (level == 0) got = run_cli(false, {"yara", "-d", def, ext_rules, target}, 1, p1, 1);
  else {
    InvResult c = run_cli(true, {"yarac", "-d", level == 1 ? def : std::string(place), ext_rules, yarc}, 1, p1, 1); st.c["cli_invocations"]++;
    if (c.status != 0 || c.rc != 0) { got = c; got.out = "(yarac failed) " + c.out; }
    else if (level == 1) got = run_cli(false, {"yara", "-C", yarc, target}, 1, p1, 1);
    else got = run_cli(false, {"yara", "-d", def, "-C", yarc, target}, 1, p1, 1);
  }
  st.runs++; st.c["cli_invocations"]++; st.c[std::string("c20cli.level.") + LV[level]]++; st.c[std::string("c20cli.type.") + d.type]++;
  Hash64 h; h.add("c20cli"); h.addu(run % (NDVALS * 3)); st.hash(h.h);
  std::string sig, klass, detail;
  if (lit.status != 0 || lit.rc != 0) { klass = "harness"; sig = "cli-ext|literal-twin-failed"; detail = lit.err + lit.iso.err.substr(0, 300); }
  else if (got.status == 3) { klass = "crash"; sig = std::string("cli-ext|") + LV[level] + "|crash|" + sim_crash_signature(got.iso); detail = got.iso.err.substr(0, 1200); }
  else if (got.status != 0) { klass = "hang"; sig = std::string("cli-ext|") + LV[level] + "|no-termination"; }
  else if (got.rc != 0 || lines(got.out) != lines(lit.out)) {
    klass = "external-differs-from-literal"; sig = std::string("cli-ext|") + LV[level] + "|type=" + d.type + "|" + (got.rc != 0 ? "failed" : "verdicts-differ") + "|value=" + d.text;
    detail = std::string("-d v=") + d.text + " (" + LV[level] + "): exit " + std::to_string(got.rc) + ", printed '" + replace_all(got.out, target, "F").substr(0, 200) + "' stderr '" + got.err.substr(0, 120) + "'; the same rules with the literal " + d.literal + " print '" + replace_all(lit.out, target, "F").substr(0, 200) + "'";
  }
  if (!sig.empty()) { st.c["viol." + klass]++; if (reported.insert(sig).second || replaying) { J rp = J::obj(); rp.set("engine", "sim_cli"); rp.set("c20cli", true); rp.set("seed", (int64_t) seed); rp.set("run", run); emit_violation("C20", klass, sig, detail, rp); } }
  if (st.samples.size() < 3) { J s = J::obj(); s.set("define", def); s.set("level", LV[level]); s.set("stdout", replace_all(got.out, target, "F").substr(0, 120)); st.sample(s); }
}

int main(int argc, char** argv) {
  Args args(argc, argv);
  sim_symbolize((void*) &main);
  std::string cmd = args.pos.empty() ? "run" : args.pos[0];
  std::vector<std::string> contents = make_contents();
  Stats st; std::set<std::string> reported;
  if (cmd == "replay") {
    J rp; if (args.pos.size() < 2 || !J::load(args.pos[1], rp)) return 2;
    const J& c = rp.has("replay") ? rp["replay"] : rp;
    if (c["c20cli"].truthy()) run_c20cli((uint64_t) c["seed"].num(), c["run"].num(), st, reported, true);
    else if (c["c17cli"].truthy()) run_c17cli((uint64_t) c["seed"].num(), c["run"].num(), false, st, reported, c["n"].num());
    else run_case((uint64_t) c["seed"].num(), c["run"].num(), c["thorough"].truthy(), contents, st, reported, true);
    J done = J::obj(); done.set("t", "replayed"); emit_line(done);
    return 0;
  }
  Shard sh = parse_shard(args);
  bool thorough = args.get("tier", "quick") == "thorough";
  uint64_t seed = args.num("seed", 1); int64_t from = args.num("from", 0);
  double budget = (double) args.num("budget", thorough ? 1200 : 60), t0 = now_s();
  int64_t nruns = args.num("runs", thorough ? 60000 : 1200);
  if (args.has("dump-hashes")) { setenv("SIM_DUMP_HASHES", "1", 1); nruns = std::min<int64_t>(nruns, 160); }
  for (int64_t i = from; i < nruns; i++) {
    if (!sh.mine(i)) continue;
    if (now_s() - t0 > budget) { st.c["stopped_by_budget"]++; break; }
    if (args.get("mode", "") == "c17cli") run_c17cli(seed, i, thorough, st, reported);
    else if (args.get("mode", "") == "c20cli") run_c20cli(seed, i, st, reported, false);
    else run_case(seed, i, thorough, contents, st, reported, false);
    st.c["reference_invocations"] = g_ref_runs;
    if (st.hashes.size() > 300) st.flush(false);
  }
  st.flush();
  return 0;
}
