// Shared scaffolding for engines: shard selection, violation / stats lines.
#pragma once
#include "yru.h"
#include <set>

struct Shard { int w = 0, W = 1; bool mine(uint64_t i) const { return (int) (i % W) == w; } };
static inline Shard parse_shard(const Args& a) { Shard s; std::string v = a.get("shard", "0/1"); sscanf(v.c_str(), "%d/%d", &s.w, &s.W); if (s.W < 1) s.W = 1; return s; }

struct Stats {
  std::map<std::string, int64_t> c;          // counters, summed across shards by the driver
  std::vector<std::string> hashes;           // hex hashes of non-trivial runs (driver counts distinct)
  std::vector<J> samples;
  int64_t runs = 0;
  void hash(uint64_t h) { char b[20]; snprintf(b, sizeof b, "%016llx", (unsigned long long) h); hashes.push_back(b); }
  void sample(const J& j, size_t max = 4) { if (samples.size() < max) samples.push_back(j); }
  void flush(bool final = true) {
    J j = J::obj(); j.set("t", "stats"); j.set("runs", runs);
    J cc = J::obj(); for (auto& kv : c) cc.set(kv.first, kv.second); j.set("counters", cc);
    J hh = J::arr(); for (auto& h : hashes) hh.push(h); j.set("hashes", hh);
    J ss = J::arr(); for (auto& s : samples) ss.push(s); j.set("samples", ss);
    emit_line(j);
    runs = 0; c.clear(); hashes.clear(); samples.clear();
  }
};

static inline void emit_violation(const char* prop, const std::string& klass, const std::string& sig, const std::string& detail, const J& replay) {
  J j = J::obj(); j.set("t", "viol"); j.set("prop", prop); j.set("class", klass); j.set("sig", sig); j.set("detail", detail.substr(0, 4000)); j.set("replay", replay);
  emit_line(j);
}
static inline void emit_note(const std::string& s) { J j = J::obj(); j.set("t", "note"); j.set("msg", s); emit_line(j); }

static inline double now_s() { struct timespec t; clock_gettime(CLOCK_MONOTONIC, &t); return t.tv_sec + t.tv_nsec * 1e-9; }
