// C11 — the scan callback protocol is exact.
// The simulator owns the consumer: the callback's reply at every message index
// k (ABORT / ERROR), under all four report-flag settings, for generated rule
// sets that a small executable model (DESIGN.md Appendix A.1) can predict.
#include "engine.h"
#include <fcntl.h>
#include <unistd.h>

// ------------------------------------------------------------------ model ---
enum Tri { F = 0, T = 1, U = 2 };
struct Cond { char op; int a = -1, b = -1; int ref = -1; int mod = -1; };   // op: T F S U R M ! & |
struct MRule { std::string ns, name; bool is_global = false, is_private = false; bool has_string = false; std::string token; bool log = false; std::string logmsg; std::vector<Cond> nodes; int root = 0; int source = 0; };
struct MSource { std::string ns; std::vector<std::string> imports; std::vector<int> rules; };
struct MSet { std::vector<MRule> rules; std::vector<MSource> sources; std::string buffer; std::set<std::string> present; std::string buffer2; std::set<std::string> present2; int padding = 0; };
// the same rule set looking at the complementary buffer (every planted token absent and vice versa)
static MSet alt_of(const MSet& s) { MSet a = s; a.buffer = s.buffer2; a.present = s.present2; a.buffer2 = s.buffer; a.present2 = s.present; return a; }

struct ModFn { const char* module; const char* expr; Tri value; };
static const ModFn MODFNS[] = {
  {"tests", "tests.isum(1, 2) == 3", T}, {"tests", "tests.isum(1, 2) == 4", F}, {"tests", "tests.undefined.i == 1", U},
  {"math", "math.max(1, 2) == 2", T}, {"math", "math.min(1, 2) == 2", F},
  {"string", "string.length(\"ab\") == 2", T}, {"string", "string.to_int(\"7\") == 8", F},
  {"time", "time.now() > 0", T},
};
static const int NMODFN = sizeof MODFNS / sizeof MODFNS[0];

static std::string cond_text(const MSet& s, const MRule& r, int n) {
  const Cond& c = r.nodes[n];
  switch (c.op) {
    case 'T': return "true"; case 'F': return "false"; case 'S': return "$a";
    case 'U': return "uint8(filesize + 10) == 0";
    case 'R': return s.rules[c.ref].name;
    case 'M': return MODFNS[c.mod].expr;
    case '!': return "not (" + cond_text(s, r, c.a) + ")";
    case '&': return "(" + cond_text(s, r, c.a) + " and " + cond_text(s, r, c.b) + ")";
    case '|': return "(" + cond_text(s, r, c.a) + " or " + cond_text(s, r, c.b) + ")";
  }
  return "true";
}
static Tri eval(const MSet& s, const MRule& r, int n, const std::vector<Tri>& own) {
  const Cond& c = r.nodes[n];
  switch (c.op) {
    case 'T': return T; case 'F': return F;
    case 'S': return s.present.count(r.token) ? T : F;
    case 'U': return U;
    case 'R': return own[c.ref] == T ? T : F;
    case 'M': return MODFNS[c.mod].value;
    case '!': { Tri v = eval(s, r, c.a, own); return v == U ? U : (v == T ? F : T); }
    case '&': { Tri a = eval(s, r, c.a, own), b = eval(s, r, c.b, own); return (a == T && b == T) ? T : F; }
    case '|': { Tri a = eval(s, r, c.a, own), b = eval(s, r, c.b, own); return (a == T || b == T) ? T : F; }
  }
  return F;
}
static std::string source_text(const MSet& s, const MSource& src) {
  std::string t;
  for (auto& m : src.imports) t += "import \"" + m + "\"\n";
  for (int ri : src.rules) {
    const MRule& r = s.rules[ri];
    if (r.is_global) t += "global "; if (r.is_private) t += "private ";
    t += "rule " + r.name + " {\n";
    if (r.has_string) t += "  strings:\n    $a = \"" + r.token + "\"\n";
    t += "  condition:\n    ";
    if (r.log) t += "console.log(\"" + r.logmsg + "\") and ";
    t += cond_text(s, r, r.root) + "\n}\n";
  }
  return t;
}

struct Expect { std::vector<std::string> lines; std::vector<int> kinds; };
static Expect model_trace(const MSet& s, int flags) {
  Expect e;
  std::vector<Tri> own(s.rules.size(), F);
  std::set<std::string> loaded;
  auto emit = [&](int kind, const std::string& l) { e.lines.push_back(l); e.kinds.push_back(kind); };
  // evaluation phase, in bytecode order
  for (auto& src : s.sources) {
    for (auto& m : src.imports) if (loaded.insert(m).second) { emit(CALLBACK_MSG_IMPORT_MODULE, "IMPORT " + m); emit(CALLBACK_MSG_MODULE_IMPORTED, "IMPORTED " + m); }
    for (int ri : src.rules) {
      const MRule& r = s.rules[ri];
      if (r.log) emit(CALLBACK_MSG_CONSOLE_LOG, "LOG " + r.logmsg);
      Tri v = eval(s, r, r.root, own);
      own[ri] = v == T ? T : F;
    }
  }
  std::map<std::string, bool> ns_ok;
  for (size_t i = 0; i < s.rules.size(); i++) { if (!ns_ok.count(s.rules[i].ns)) ns_ok[s.rules[i].ns] = true; if (s.rules[i].is_global && own[i] != T) ns_ok[s.rules[i].ns] = false; }
  int f = flags; if (!(f & (SCAN_FLAGS_REPORT_RULES_MATCHING | SCAN_FLAGS_REPORT_RULES_NOT_MATCHING))) f |= SCAN_FLAGS_REPORT_RULES_MATCHING | SCAN_FLAGS_REPORT_RULES_NOT_MATCHING;
  for (size_t i = 0; i < s.rules.size(); i++) {
    const MRule& r = s.rules[i]; if (r.is_private) continue;
    bool m = own[i] == T && ns_ok[r.ns];
    if (m) { if (f & SCAN_FLAGS_REPORT_RULES_MATCHING) emit(CALLBACK_MSG_RULE_MATCHING, "MATCH " + r.ns + ":" + r.name); }
    else if (f & SCAN_FLAGS_REPORT_RULES_NOT_MATCHING) emit(CALLBACK_MSG_RULE_NOT_MATCHING, "NOMATCH " + r.ns + ":" + r.name);
  }
  emit(CALLBACK_MSG_SCAN_FINISHED, "FINISHED");
  return e;
}

// ------------------------------------------------------------- generation ---
static int gen_cond(Rng& rng, MSet& s, MRule& r, int depth, const std::vector<int>& refable, const std::vector<int>& modfns) {
  Cond c;
  int pick = (int) rng.below(depth <= 0 ? 6 : 10);
  if (pick == 0) c.op = 'T'; else if (pick == 1) c.op = 'F';
  else if (pick == 2) { if (r.has_string) c.op = 'S'; else c.op = rng.chance(1, 2) ? 'T' : 'F'; }
  else if (pick == 3) c.op = 'U';
  else if (pick == 4) { if (!refable.empty()) { c.op = 'R'; c.ref = refable[rng.below(refable.size())]; } else c.op = 'T'; }
  else if (pick == 5) { if (!modfns.empty()) { c.op = 'M'; c.mod = modfns[rng.below(modfns.size())]; } else c.op = 'F'; }
  else if (pick == 6) { c.op = '!'; c.a = gen_cond(rng, s, r, depth - 1, refable, modfns); }
  else if (pick <= 8) { c.op = '&'; c.a = gen_cond(rng, s, r, depth - 1, refable, modfns); c.b = gen_cond(rng, s, r, depth - 1, refable, modfns); }
  else { c.op = '|'; c.a = gen_cond(rng, s, r, depth - 1, refable, modfns); c.b = gen_cond(rng, s, r, depth - 1, refable, modfns); }
  r.nodes.push_back(c); return (int) r.nodes.size() - 1;
}
static MSet gen_set(Rng& rng) {
  MSet s;
  int nns = 1 + (int) rng.below(3), nsrc = nns + (int) rng.below(3), nrules = 1 + (int) rng.below(10);
  static const char* NS[] = {"default", "alpha", "beta"};
  static const char* MODS[] = {"tests", "math", "string", "time"};
  bool any_console = false;
  for (int i = 0; i < nsrc; i++) {
    MSource src; src.ns = NS[i < nns ? i : (int) rng.below(nns)];    // later sources revisit earlier namespaces (a, b, a, b ...)
    int nimp = (int) rng.below(4);
    for (int k = 0; k < nimp; k++) { std::string m = MODS[rng.below(4)]; bool dup = false; for (auto& x : src.imports) if (x == m) dup = true; if (!dup) src.imports.push_back(m); }
    if (rng.chance(1, 3)) { src.imports.push_back("console"); any_console = true; }
    s.sources.push_back(src);
  }
  (void) any_console;
  std::vector<int> per_src(nsrc, 0);
  for (int k = 0; k < nrules; k++) per_src[rng.below(nsrc)]++;
  int id = 0;
  // a fifth of the sets start with 66 trivial rules, so that the interesting ones have indices above 64
  if (rng.chance(1, 5)) { s.padding = 66; for (int k = 0; k < 66; k++) { MRule r; r.ns = s.sources[0].ns; r.name = "pad" + std::to_string(k); r.source = 0; Cond c; c.op = k % 3 == 0 ? 'T' : 'F'; r.nodes.push_back(c); r.root = 0; s.sources[0].rules.push_back((int) s.rules.size()); s.rules.push_back(r); } id = 66; }
  for (int si = 0; si < nsrc; si++) for (int k = 0; k < per_src[si]; k++) {
    MRule r; r.ns = s.sources[si].ns; r.name = "r" + std::to_string(id); r.source = si;
    int flavour = (int) rng.below(8);
    r.is_global = flavour == 0 || flavour == 1; r.is_private = flavour == 1 || flavour == 2;
    bool has_console = false; for (auto& m : s.sources[si].imports) if (m == "console") has_console = true;
    r.log = has_console && rng.chance(1, 3);
    if (r.log) r.logmsg = "log-from-" + r.name;
    r.has_string = !r.log && rng.chance(1, 2);
    r.token = "tok_" + std::to_string(id) + "_";
    std::vector<int> refable; for (size_t j = (size_t) s.padding; j < s.rules.size(); j++) if (s.rules[j].ns == r.ns) refable.push_back((int) j);
    std::vector<int> modfns; for (int m = 0; m < NMODFN; m++) for (auto& im : s.sources[si].imports) if (im == MODFNS[m].module) modfns.push_back(m);
    r.root = gen_cond(rng, s, r, 2, refable, modfns);
    { bool uses = false; for (auto& c : r.nodes) if (c.op == 'S') uses = true;     // yara rejects unreferenced strings
      if (r.has_string && !uses) { Cond sn; sn.op = 'S'; r.nodes.push_back(sn); Cond j; j.op = rng.chance(1, 2) ? '&' : '|'; j.a = (int) r.nodes.size() - 1; j.b = r.root; r.nodes.push_back(j); r.root = (int) r.nodes.size() - 1; } }
    s.sources[si].rules.push_back((int) s.rules.size());
    s.rules.push_back(r); id++;
  }
  s.buffer = "buffer:";
  for (auto& r : s.rules) if (r.has_string && rng.chance(1, 2)) { s.buffer += " " + r.token; s.present.insert(r.token); }
  s.buffer += " end";
  s.buffer2 = "buffer:";
  for (auto& r : s.rules) if (r.has_string && !s.present.count(r.token)) { s.buffer2 += " " + r.token; s.present2.insert(r.token); }
  s.buffer2 += " end";
  return s;
}

// ----------------------------------------------------------------- replay ---
static J set_json(const MSet& s) {
  J j = J::obj(); J rs = J::arr();
  for (auto& r : s.rules) { J e = J::obj(); e.set("ns", r.ns); e.set("name", r.name); e.set("g", r.is_global); e.set("p", r.is_private); e.set("str", r.has_string); e.set("tok", r.token); e.set("log", r.log); e.set("msg", r.logmsg); e.set("src", r.source); e.set("root", r.root);
    J ns = J::arr(); for (auto& c : r.nodes) { J n = J::arr(); n.push(std::string(1, c.op)); n.push(c.a); n.push(c.b); n.push(c.ref); n.push(c.mod); ns.push(n); } e.set("nodes", ns); rs.push(e); }
  j.set("rules", rs);
  J ss = J::arr(); for (auto& x : s.sources) { J e = J::obj(); e.set("ns", x.ns); J im = J::arr(); for (auto& m : x.imports) im.push(m); e.set("imports", im); J rr = J::arr(); for (int i : x.rules) rr.push(i); e.set("rules", rr); ss.push(e); }
  j.set("sources", ss); j.set("buffer", s.buffer); J pr = J::arr(); for (auto& p : s.present) pr.push(p); j.set("present", pr);
  j.set("buffer2", s.buffer2); J pr2 = J::arr(); for (auto& p : s.present2) pr2.push(p); j.set("present2", pr2); j.set("padding", s.padding);
  return j;
}
static MSet set_from(const J& j) {
  MSet s;
  for (size_t i = 0; i < j["rules"].size(); i++) { const J& e = j["rules"][i]; MRule r; r.ns = e["ns"].str(); r.name = e["name"].str(); r.is_global = e["g"].truthy(); r.is_private = e["p"].truthy(); r.has_string = e["str"].truthy(); r.token = e["tok"].str(); r.log = e["log"].truthy(); r.logmsg = e["msg"].str(); r.source = (int) e["src"].num(); r.root = (int) e["root"].num();
    for (size_t k = 0; k < e["nodes"].size(); k++) { const J& n = e["nodes"][k]; Cond c; c.op = n[0].str()[0]; c.a = (int) n[1].num(); c.b = (int) n[2].num(); c.ref = (int) n[3].num(); c.mod = (int) n[4].num(); r.nodes.push_back(c); } s.rules.push_back(r); }
  for (size_t i = 0; i < j["sources"].size(); i++) { const J& e = j["sources"][i]; MSource x; x.ns = e["ns"].str(); for (size_t k = 0; k < e["imports"].size(); k++) x.imports.push_back(e["imports"][k].str()); for (size_t k = 0; k < e["rules"].size(); k++) x.rules.push_back((int) e["rules"][k].num()); s.sources.push_back(x); }
  s.buffer = j["buffer"].str(); for (size_t i = 0; i < j["present"].size(); i++) s.present.insert(j["present"][i].str());
  s.buffer2 = j["buffer2"].str(); for (size_t i = 0; i < j["present2"].size(); i++) s.present2.insert(j["present2"][i].str()); s.padding = (int) j["padding"].num();
  return s;
}

// --------------------------------------------------------------- checking ---
static std::vector<std::string> normalise(const std::string& text) {
  std::vector<std::string> v; size_t p = 0;
  while (p < text.size()) { size_t e = text.find('\n', p); std::string l = text.substr(p, e - p); p = e + 1;
    if (l.rfind("MATCH ", 0) == 0 || l.rfind("NOMATCH ", 0) == 0) { size_t sp = l.find(' '); size_t sp2 = l.find(' ', sp + 1); if (sp2 != std::string::npos) l.resize(sp2); }
    v.push_back(l); }
  return v;
}
static std::string flavour_of(const MSet& s, const std::string& line) {
  size_t c = line.find(':'); if (c == std::string::npos) return line.substr(0, line.find(' '));
  std::string name = line.substr(c + 1);
  for (auto& r : s.rules) if (r.name == name) { std::string f = r.is_global ? (r.is_private ? "global+private" : "global") : (r.is_private ? "private" : "ordinary"); bool ns_has_global = false; for (auto& q : s.rules) if (q.ns == r.ns && q.is_global && &q != &r) ns_has_global = true; return f + (ns_has_global ? "/ns-with-global" : ""); }
  return "?";
}

struct Check { std::string sig, klass, detail; };
static int g_entry = 0;      // 0 memory, 1 yr_rules_scan_file, 2 yr_rules_scan_fd (for the non-scanner runs)
// one scan under (flags, k, reply); returns "" sig if the protocol held
static Check run_one(const MSet& s, YR_RULES* rules, int flags, int k, int reply, const Expect& full, bool scanner_api, int64_t* msgs = nullptr, YR_SCANNER* reuse = nullptr) {
  Check c;
  Recorder rec; rec.with_module_tree = false; rec.with_match_data = false; rec.reply_at = k; rec.reply_code = reply;
  int rc;
  if (reuse) { yr_scanner_set_flags(reuse, flags); yr_scanner_set_callback(reuse, recorder_callback, &rec); rc = yr_scanner_scan_mem(reuse, (const uint8_t*) s.buffer.data(), s.buffer.size()); }
  else if (g_entry == 1 || g_entry == 2) {
    // rules-level file / descriptor entry points: same protocol
    std::string path = tmp_dir() + "/c11.buf"; write_file(path, s.buffer);
    if (g_entry == 1) rc = yr_rules_scan_file(rules, path.c_str(), flags, recorder_callback, &rec, 0);
    else { int fd = open(path.c_str(), O_RDONLY); rc = yr_rules_scan_fd(rules, fd, flags, recorder_callback, &rec, 0); close(fd); }
  }
  else if (scanner_api) { YR_SCANNER* sc = NULL; yr_scanner_create(rules, &sc); yr_scanner_set_flags(sc, flags); yr_scanner_set_callback(sc, recorder_callback, &rec); rc = yr_scanner_scan_mem(sc, (const uint8_t*) s.buffer.data(), s.buffer.size()); yr_scanner_destroy(sc); }
  else rc = yr_rules_scan_mem(rules, (const uint8_t*) s.buffer.data(), s.buffer.size(), flags, recorder_callback, &rec, 0);
  if (msgs) *msgs = rec.nmsgs;
  std::vector<std::string> got = normalise(rec.text);
  // expectation
  std::vector<std::string> exp = full.lines; int exp_rc = ERROR_SUCCESS;
  std::string plan = "none";
  if (k >= 0 && k < (int) full.lines.size()) {
    int kind = full.kinds[k];
    plan = std::string(reply == CALLBACK_ABORT ? "ABORT" : "ERROR") + "@" + msg_name(kind);
    exp.resize(k + 1);
    exp_rc = reply == CALLBACK_ABORT ? ERROR_SUCCESS : ERROR_CALLBACK_ERROR;
  }
  if (got != exp) {
    size_t i = 0; while (i < got.size() && i < exp.size() && got[i] == exp[i]) i++;
    std::string e = i < exp.size() ? exp[i] : "END", g = i < got.size() ? got[i] : "END";
    c.klass = "protocol-trace-mismatch";
    c.sig = "trace|plan=" + plan + "|exp=" + e.substr(0, e.find(' ')) + "|got=" + g.substr(0, g.find(' ')) + "|rule=" + flavour_of(s, e != "END" ? e : g);
    c.detail = "flags=" + std::to_string(flags) + " plan=" + plan + " at message " + std::to_string(k) + ": message " + std::to_string(i) + " expected '" + e + "' got '" + g + "'";
    return c;
  }
  if (rc != exp_rc) { c.klass = "protocol-return-code"; c.sig = "rc|plan=" + plan + "|rc=" + yr_error_name(rc); c.detail = "flags=" + std::to_string(flags) + " plan=" + plan + ": returned " + yr_error_name(rc) + ", expected " + yr_error_name(exp_rc); }
  return c;
}

static YR_RULES* compile_set(const MSet& s, std::string* err) {
  CompileSpec cs; for (auto& src : s.sources) cs.sources.push_back({src.ns == "default" ? "" : src.ns, source_text(s, src)});
  // an integer external named like the first built-in module (in module-table order) that this set does not import:
  // externals and module structures share the scanner's object table, and the protocol must not notice
  { static const char* TABLE[] = {"tests", "pe", "elf", "math", "time", "console", "string", "hash"};
    for (const char* m : TABLE) { bool imported = false; for (auto& src : s.sources) for (auto& im : src.imports) if (im == m) imported = true; if (!imported) { cs.externals.push_back({m, 'i', 1, 0, ""}); break; } } }
  CompileResult cr = compile_rules(cs); if (!cr.rules && err) *err = cr.messages;
  // in every third set each rule is disabled and enabled again before anything is scanned: a round trip through
  // yr_rule_disable / yr_rule_enable must leave the rule as it was (private, global, ...)
  if (cr.rules) { Hash64 h; for (auto& src : s.sources) h.add(source_text(s, src)); if (h.h % 3 == 0) { YR_RULE* rule; yr_rules_foreach(cr.rules, rule) yr_rule_disable(rule); yr_rules_foreach(cr.rules, rule) yr_rule_enable(rule); } }
  return cr.rules;
}

static const int FLAGSETS[4] = {0, SCAN_FLAGS_REPORT_RULES_MATCHING, SCAN_FLAGS_REPORT_RULES_NOT_MATCHING, SCAN_FLAGS_REPORT_RULES_MATCHING | SCAN_FLAGS_REPORT_RULES_NOT_MATCHING};

// all (flags, k, reply) for one rule set; returns the first failing check per signature
static std::vector<std::pair<Check, J>> check_set(const MSet& s, Stats* st, bool scanner_api_mix, Rng* rng) {
  std::vector<std::pair<Check, J>> out; std::set<std::string> seen;
  std::string err; YR_RULES* rules = compile_set(s, &err);
  if (!rules) { if (st) { st->c["generated_set_did_not_compile"]++; if (st->c["generated_set_did_not_compile"] <= 2) emit_note("c11: generated set does not compile: " + err.substr(0, 300)); } return out; }
  bool reuse = scanner_api_mix;
  MSet alt = alt_of(s);
  for (int fi = 0; fi < 4; fi++) {
    int flags = FLAGSETS[fi];
    Expect full = model_trace(s, flags);
    Expect full_alt = model_trace(alt, flags);
    for (int k = -1; k < (int) full.lines.size(); k++) {
      // padded sets: every k among the last 14 messages, a sample among the padding
      if (s.padding && k >= 0 && k + 14 < (int) full.lines.size() && (k % 11) != fi) continue;
      for (int reply : {CALLBACK_ABORT, CALLBACK_ERROR}) {
        if (k == -1 && reply == CALLBACK_ERROR) continue;
        if (k >= 0) {
          int kind = full.kinds[k];
          bool rule_msg = kind == CALLBACK_MSG_RULE_MATCHING || kind == CALLBACK_MSG_RULE_NOT_MATCHING;
          bool mod_msg = kind == CALLBACK_MSG_IMPORT_MODULE || kind == CALLBACK_MSG_MODULE_IMPORTED;
          if (!(rule_msg || (mod_msg && reply == CALLBACK_ERROR))) continue;     // unspecified positions: inject nothing
        }
        bool api = scanner_api_mix && rng ? rng->chance(1, 2) : false;
        bool with_reuse = reuse && rng && rng->chance(1, 3);
        int64_t msgs = 0;
        // a two-scan history on one scanner: first the complementary buffer, possibly cut short by the callback at k0,
        // then this scan; the replay file carries both
        YR_SCANNER* rsc = NULL; int k0 = -1, reply0 = CALLBACK_ABORT;
        if (with_reuse) {
          yr_scanner_create(rules, &rsc);
          if (rng->chance(1, 2)) { std::vector<int> ok; for (int q = 0; q < (int) full_alt.lines.size(); q++) { int kd = full_alt.kinds[q]; if (kd == CALLBACK_MSG_RULE_MATCHING || kd == CALLBACK_MSG_RULE_NOT_MATCHING) ok.push_back(q); } if (!ok.empty()) { k0 = ok[rng->below(ok.size())]; reply0 = rng->chance(1, 2) ? CALLBACK_ABORT : CALLBACK_ERROR; } }
          Check c0 = run_one(alt, rules, flags, k0, reply0, full_alt, true, nullptr, rsc);
          if (st) { st->runs++; st->c["reused_scanner_scans"]++; }
          (void) c0;      // the first scan of a fresh scanner is covered by the ordinary runs
        }
        g_entry = (!with_reuse && !api && rng) ? (int) rng->below(3) : 0;
        Check c = run_one(s, rules, flags, k, reply, full, api, &msgs, rsc);
        int entry_used = g_entry; g_entry = 0;
        if (rsc) yr_scanner_destroy(rsc);
        if (with_reuse && !c.sig.empty()) c.sig = "reused|" + c.sig;
        if (entry_used && !c.sig.empty()) c.sig = std::string(entry_used == 1 ? "file|" : "fd|") + c.sig;
        if (st && entry_used) st->c[entry_used == 1 ? "entry.rules_scan_file" : "entry.rules_scan_fd"]++;
        if (st) { st->runs++; if (k >= 0) st->c[reply == CALLBACK_ABORT ? "faults_fired.callback_abort" : "faults_fired.callback_error"]++; else st->c["fault_free_scans"]++;
          Hash64 h; h.add(s.buffer); for (auto& src : s.sources) h.add(source_text(s, src)); h.addu(flags); h.addu(k); h.addu(reply); st->hash(h.h); }
        if (!c.sig.empty() && seen.insert(c.sig).second) { J rp = J::obj(); rp.set("engine", "sim_protocol"); rp.set("set", set_json(s)); rp.set("flags", flags); rp.set("k", k); rp.set("reply", reply); rp.set("scanner_api", api); rp.set("reused_after_alt", with_reuse); rp.set("k0", k0); rp.set("reply0", reply0); rp.set("entry", entry_used); out.push_back({c, rp}); }
      }
    }
  }
  yr_rules_destroy(rules);
  return out;
}

// greedy shrinking: drop rules that nobody references while the same signature persists
static MSet shrink(const MSet& s0, const std::string& sig) {
  MSet s = s0; int budget = 40;
  bool progress = true;
  while (progress && budget > 0) {
    progress = false;
    for (int i = (int) s.rules.size() - 1; i >= 0 && budget > 0; i--) {
      bool referenced = false;
      for (auto& r : s.rules) for (auto& c : r.nodes) if (c.op == 'R' && c.ref == i) referenced = true;
      if (referenced || s.rules.size() <= 1) continue;
      MSet t = s; t.rules.erase(t.rules.begin() + i);
      for (auto& r : t.rules) for (auto& c : r.nodes) if (c.op == 'R' && c.ref > i) c.ref--;
      for (auto& src : t.sources) { std::vector<int> nr; for (int x : src.rules) { if (x == i) continue; nr.push_back(x > i ? x - 1 : x); } src.rules = nr; }
      budget--;
      auto res = check_set(t, nullptr, false, nullptr);
      bool same = false; for (auto& cr : res) if (cr.first.sig == sig) same = true;
      if (same) { s = t; progress = true; }
    }
  }
  return s;
}


// Which rules are reported as matching does not depend on SCAN_FLAGS_FAST_MODE (it only limits how many matches of a
// string are collected): a fixed set of rules over string kinds with their own verification paths - chained hex
// strings whose first head fragment is a false start, regexps, xor, wide, fullword - scanned with and without it.
static Check fast_mode_equivalence(bool replay_only = false) {
  Check c; (void) replay_only;
  const char* SRC =
    "rule fm_chain { strings: $a = { AA BB CC DD [300-400] EE FF 99 88 } condition: $a }\n"
    "rule fm_chain3 { strings: $a = { A1 B2 C3 D4 [300-400] E5 F6 97 86 [250-350] 15 26 37 48 } condition: $a }\n"
    "global rule fm_gate { strings: $g = { 47 41 54 45 [210-260] 4F 50 45 4E } condition: $g }\n"
    "rule fm_re { strings: $r = /lazy.{1,20}?end/ condition: $r }\nrule fm_xor { strings: $x = \"xorsecret\" xor(1-255) condition: $x }\n"
    "rule fm_count { strings: $c = \"cnt!\" condition: #c >= 1 and $c at 0 }\nrule fm_fw { strings: $f = \"fullw\" fullword condition: $f }\n";
  YR_RULES* r = compile_simple(SRC);
  auto z = [](size_t n) { return std::string(n, '\0'); };
  std::string buf = "cnt!.." + std::string("\xaa\xbb\xcc\xdd") + z(460) + "\xaa\xbb\xcc\xdd" + z(350) + "\xee\xff\x99\x88"       // false start, then the real chain
    + "\xa1\xb2\xc3\xd4" + z(800) + "\xa1\xb2\xc3\xd4" + z(350) + "\xe5\xf6\x97\x86" + z(300) + "\x15\x26\x37\x48"
    + "GATE" + z(600) + "GATE" + z(230) + "OPEN" + " lazy....end xfullwx fullw cnt! \x22\x35\x28\x29\x3f\x39\x28\x3f\x2e";
  auto verdicts = [&](int flags) { Recorder rec; yr_rules_scan_mem(r, (const uint8_t*) buf.data(), buf.size(), flags, recorder_callback, &rec, 0); std::string v; for (auto& l : normalise(rec.text)) if (l.rfind("MATCH ", 0) == 0 || l.rfind("NOMATCH ", 0) == 0) v += l + "\n"; return v; };
  std::string slow = verdicts(0), fast = verdicts(SCAN_FLAGS_FAST_MODE);
  yr_rules_destroy(r);
  if (slow != fast) { c.klass = "verdict-depends-on-fast-mode"; c.sig = "fast-mode|verdicts-differ"; c.detail = "without SCAN_FLAGS_FAST_MODE: " + slow + " with it: " + fast; }
  return c;
}

int main(int argc, char** argv) {
  Args args(argc, argv);
  std::string cmd = args.pos.empty() ? "run" : args.pos[0];
  yr_initialize();
  Stats st;
  if (cmd == "replay") {
    J rp; if (args.pos.size() < 2 || !J::load(args.pos[1], rp)) return 2;
    const J& c = rp.has("replay") ? rp["replay"] : rp;
    if (c["fast_mode"].truthy()) { Check fc = fast_mode_equivalence(); if (!fc.sig.empty()) emit_violation("C11", fc.klass, fc.sig, fc.detail, c); J done = J::obj(); done.set("t", "replayed"); emit_line(done); return 0; }
    if (c.has("set")) {
      MSet s = set_from(c["set"]);
      std::string err; YR_RULES* rules = compile_set(s, &err); if (!rules) { fprintf(stderr, "replay: set does not compile: %s\n", err.c_str()); return 2; }
      int flags = (int) c["flags"].num(); Expect full = model_trace(s, flags);
      Check ck;
      if (c["reused_after_alt"].truthy()) { YR_SCANNER* sc = NULL; yr_scanner_create(rules, &sc); MSet alt = alt_of(s); Expect fa = model_trace(alt, flags); run_one(alt, rules, flags, c.has("k0") ? (int) c["k0"].num() : -1, c.has("reply0") ? (int) c["reply0"].num() : CALLBACK_ABORT, fa, true, nullptr, sc); ck = run_one(s, rules, flags, (int) c["k"].num(), (int) c["reply"].num(), full, true, nullptr, sc); if (!ck.sig.empty()) ck.sig = "reused|" + ck.sig; yr_scanner_destroy(sc); }
      else { g_entry = (int) c["entry"].num(); ck = run_one(s, rules, flags, (int) c["k"].num(), (int) c["reply"].num(), full, c["scanner_api"].truthy()); if (g_entry && !ck.sig.empty()) ck.sig = std::string(g_entry == 1 ? "file|" : "fd|") + ck.sig; g_entry = 0; }
      if (!ck.sig.empty()) emit_violation("C11", ck.klass, ck.sig, ck.detail, c);
      if (args.has("verbose")) { for (auto& src : s.sources) printf("--- ns %s\n%s", src.ns.c_str(), source_text(s, src).c_str()); for (auto& l : full.lines) printf("  model: %s\n", l.c_str()); }
      yr_rules_destroy(rules);
    } else {   // a whole generated set (worker died inside it)
      Rng rng(sim_run_seed((uint64_t) c["seed"].num(), (uint64_t) c["run"].num())); MSet s = gen_set(rng);
      for (auto& cr : check_set(s, &st, true, &rng)) emit_violation("C11", cr.first.klass, cr.first.sig, cr.first.detail, cr.second);
    }
    J done = J::obj(); done.set("t", "replayed"); emit_line(done);
    return 0;
  }
  Shard sh = parse_shard(args);
  bool thorough = args.get("tier", "quick") == "thorough";
  uint64_t seed = args.num("seed", 1); int64_t from = args.num("from", 0);
  if (sh.w == 0 && from == 0) { Check fc = fast_mode_equivalence(); st.runs += 2; st.c["fast_mode_equivalence_scans"] += 2; if (!fc.sig.empty()) { J rp = J::obj(); rp.set("engine", "sim_protocol"); rp.set("fast_mode", true); emit_violation("C11", fc.klass, fc.sig, fc.detail, rp); } }
  double budget = (double) args.num("budget", thorough ? 1200 : 60), t0 = now_s();
  int64_t nsets = args.num("sets", thorough ? 60000 : 1600);
  std::set<std::string> reported;
  for (int64_t i = from; i < nsets; i++) {
    if (!sh.mine(i)) continue;
    if (now_s() - t0 > budget) { st.c["stopped_by_budget"]++; break; }
    { J b = J::obj(); b.set("t", "begin"); b.set("run", i); J rp = J::obj(); rp.set("engine", "sim_protocol"); rp.set("seed", (int64_t) seed); rp.set("run", i); b.set("replay", rp); emit_line(b); }
    Rng rng(sim_run_seed(seed, i));
    MSet s = gen_set(rng);
    st.c["sets"]++; st.c["rules_total"] += s.rules.size();
    { int g = 0, p = 0; std::set<std::string> nss; for (auto& r : s.rules) { g += r.is_global; p += r.is_private; nss.insert(r.ns); } if (g) st.c["probe.sets_with_global_rule"]++; if (p) st.c["probe.sets_with_private_rule"]++; if (nss.size() > 1) st.c["probe.sets_with_several_namespaces"]++;
      std::set<std::string> seen; bool rep = false; for (auto& src : s.sources) for (auto& m : src.imports) if (!seen.insert(m).second) rep = true; if (rep) st.c["probe.sets_with_repeated_import"]++;
      for (auto& src : s.sources) for (auto& q : s.sources) if (&src < &q && src.ns == q.ns) { st.c["probe.namespace_revisited_by_later_source"]++; break; } }
    auto res = check_set(s, &st, true, &rng);
    for (auto& cr : res) {
      st.c["viol." + cr.first.klass]++;
      if (!reported.insert(cr.first.sig).second) continue;
      MSet small = shrink(s, cr.first.sig);
      auto again = check_set(small, nullptr, false, nullptr);
      J rp = cr.second; std::string detail = cr.first.detail;
      for (auto& a : again) if (a.first.sig == cr.first.sig) { rp = a.second; detail = a.first.detail + " [shrunk from " + std::to_string(s.rules.size()) + " to " + std::to_string(small.rules.size()) + " rules]"; }
      emit_violation("C11", cr.first.klass, cr.first.sig, detail, rp);
    }
    if (st.samples.size() < 3) { J x = J::obj(); std::string src; for (auto& q : s.sources) src += "// namespace " + q.ns + "\n" + source_text(s, q); x.set("rules", src.substr(0, 1200)); x.set("buffer", s.buffer); Expect e = model_trace(s, 0); J l = J::arr(); for (auto& ln : e.lines) l.push(ln); x.set("model_trace", l); st.sample(x); }
    { J e = J::obj(); e.set("t", "end"); emit_line(e); }
    if (st.hashes.size() > 3000) st.flush(false);
  }
  st.flush();
  yr_finalize();
  return 0;
}
