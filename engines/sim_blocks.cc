// C13 — all scan entry points agree, also across interrupted block iteration.
// The simulator owns the block iterator (partition, not-ready answers, failed
// fetches) and the file syscalls under scan_file / scan_fd.  DESIGN.md §5.C13.
#include "engine.h"
#include "rulelab.h"
#include <unistd.h>
#include <fcntl.h>
#include <sys/mman.h>

static const char* SAMPLES[] = {"tiny", "elf_with_imports"};

// exact-size heap copy: ASan's red zone right behind the last byte catches any over-read
struct Exact { uint8_t* p; size_t n; Exact(const std::string& s) : n(s.size()) { p = (uint8_t*) malloc(n ? n : 1); memcpy(p, s.data(), n); } ~Exact() { free(p); } };

// scan flags and timeout under which the entry points are compared (all of them get the same pair; the clock does not move)
static int g_ep_flags = 0, g_ep_timeout = 0;
static YR_SCANNER* mk_scanner(YR_RULES* r) { YR_SCANNER* sc = NULL; if (yr_scanner_create(r, &sc) != ERROR_SUCCESS) return NULL; yr_scanner_set_flags(sc, g_ep_flags); yr_scanner_set_timeout(sc, g_ep_timeout); return sc; }

struct Outcome { std::string trace; int rc; std::vector<int> rcs; int calls = 0; bool bad_intermediate = false; std::string note; };

static Outcome scan_mem_ref(YR_RULES* r, const std::string& buf) {
  Outcome o; Recorder rec; Exact e(buf);
  o.rc = yr_rules_scan_mem(r, e.p, e.n, g_ep_flags, recorder_callback, &rec, g_ep_timeout); o.trace = rec.text; return o;
}

// a scan through the scanner API over a partition, repeated while the iterator says not-ready
static Outcome scan_blocks(YR_RULES* r, const std::string& buf, const std::vector<std::pair<size_t, size_t>>& parts,
                           const std::map<int, int>& nr_target, const std::set<int64_t>& reiter_nr, const std::set<int>& fetch_null, bool rules_api, int64_t* fired = nullptr, int64_t* reiter_calls = nullptr) {
  Outcome o; Recorder rec; Exact e(buf);
  BlockIter bi; bi.init(e.p, e.n, parts); bi.nr_target = nr_target; bi.reiter_nr = reiter_nr; bi.fetch_null = fetch_null;
  int budget = 2; for (auto& kv : nr_target) budget += kv.second; budget += (int) reiter_nr.size();
  YR_SCANNER* sc = NULL;
  if (!rules_api) { if (!(sc = mk_scanner(r))) { o.rc = -1; o.note = "scanner_create failed"; return o; } yr_scanner_set_callback(sc, recorder_callback, &rec); }
  int rc;
  do {
    size_t before = rec.text.size(); int msgs_before = rec.nmsgs;
    rc = rules_api ? yr_rules_scan_mem_blocks(r, &bi.it, g_ep_flags, recorder_callback, &rec, g_ep_timeout) : yr_scanner_scan_mem_blocks(sc, &bi.it);
    o.rcs.push_back(rc); o.calls++;
    if (rc == ERROR_BLOCK_NOT_READY) {
      // an interrupted call must not have reported rules or the end of the scan
      for (int i = msgs_before; i < rec.nmsgs; i++) if (rec.kinds[i] == CALLBACK_MSG_RULE_MATCHING || rec.kinds[i] == CALLBACK_MSG_RULE_NOT_MATCHING || rec.kinds[i] == CALLBACK_MSG_SCAN_FINISHED) o.bad_intermediate = true;
      (void) before;
    }
  } while (rc == ERROR_BLOCK_NOT_READY && !rules_api && o.calls < budget + 2);
  o.rc = rc; o.trace = rec.text;
  if (fired) *fired = bi.not_ready_fired;
  if (reiter_calls) *reiter_calls = bi.reiter_calls;
  if (sc) yr_scanner_destroy(sc);
  return o;
}

static std::vector<std::pair<size_t, size_t>> make_partition(Rng& rng, size_t n, int b, bool overlap) {
  std::vector<std::pair<size_t, size_t>> p;
  if (b <= 1 || n == 0) { p.push_back({0, n}); return p; }
  std::set<size_t> cuts; int guard = 0;
  while ((int) cuts.size() < b - 1 && guard++ < 1000) { size_t c = 1 + rng.below(n > 1 ? n - 1 : 1); if (c < n) cuts.insert(c); }
  size_t prev = 0;
  for (size_t c : cuts) { p.push_back({prev, c - prev}); prev = c; }
  p.push_back({prev, n - prev});
  if (overlap) for (size_t i = 0; i + 1 < p.size(); i++) { size_t ext = std::min<size_t>(rng.below(16), n - (p[i].first + p[i].second)); p[i].second += ext; }
  return p;
}

static J parts_json(const std::vector<std::pair<size_t, size_t>>& p) { J a = J::arr(); for (auto& x : p) { J e = J::arr(); e.push((int64_t) x.first); e.push((int64_t) x.second); a.push(e); } return a; }
static std::vector<std::pair<size_t, size_t>> parts_from(const J& a) { std::vector<std::pair<size_t, size_t>> p; for (size_t i = 0; i < a.size(); i++) p.push_back({(size_t) a[i][0].num(), (size_t) a[i][1].num()}); return p; }
static J spec_json(const CompileSpec& s) { J j = J::obj(); J src = J::arr(); for (auto& x : s.sources) { J e = J::arr(); e.push(x.first); e.push(x.second); src.push(e); } j.set("sources", src); J ex = J::arr(); for (auto& e : s.externals) { J x = J::obj(); x.set("id", e.id); x.set("type", std::string(1, (char) e.type)); x.set("i", e.i); x.set("f", e.f); x.set("s", e.s); ex.push(x); } j.set("externals", ex); return j; }
static CompileSpec spec_from_json(const J& j) { CompileSpec s; for (size_t i = 0; i < j["sources"].size(); i++) s.sources.push_back({j["sources"][i][0].str(), j["sources"][i][1].str()}); for (size_t i = 0; i < j["externals"].size(); i++) { const J& x = j["externals"][i]; s.externals.push_back({x["id"].str(), x["type"].str()[0], x["i"].num(), x["f"].dbl(), x["s"].str()}); } return s; }
static J buf_json(const std::string& b) { for (const char* s : SAMPLES) if (b == corpus_file(s)) return J(std::string("@corpus:") + s); return J(hex_enc(b)); }
static std::string buf_from(const J& j) { const std::string& s = j.str(); if (s.rfind("@corpus:", 0) == 0) return corpus_file(s.substr(8)); return hex_dec(s); }

static std::string first_diff(const std::string& a, const std::string& b) {
  size_t i = 0; while (i < a.size() && i < b.size() && a[i] == b[i]) i++;
  size_t ls = a.rfind('\n', i ? i - 1 : 0); ls = ls == std::string::npos ? 0 : ls + 1;
  auto line = [&](const std::string& s) { size_t e = s.find('\n', ls); return s.substr(ls < s.size() ? ls : s.size(), e == std::string::npos ? 200 : std::min<size_t>(e - ls, 200)); };
  return "expected line: '" + line(a) + "'  got: '" + line(b) + "'";
}
// feature tags of the first differing line, to keep signatures independent of seeds
static std::string diff_tag(const std::string& a, const std::string& b) {
  size_t i = 0; while (i < a.size() && i < b.size() && a[i] == b[i]) i++;
  size_t ls = a.rfind('\n', i ? i - 1 : 0); ls = ls == std::string::npos ? 0 : ls + 1;
  std::string la = a.substr(ls < a.size() ? ls : a.size(), 120), lb = b.substr(ls < b.size() ? ls : b.size(), 120);
  auto kind = [](const std::string& l) { return l.substr(0, l.find(' ')); };
  auto frag = [](const std::string& l) { size_t u = l.find('_'); if (u == std::string::npos) return std::string("?"); size_t e = l.find_first_of(" \n", u); return l.substr(u + 1, e - u - 1); };
  std::string ka = kind(la), kb = kind(lb);
  if (ka == kb) return ka + "-content:" + frag(la);
  return ka + "->" + kb + ":" + frag(la.size() ? la : lb);
}

struct Case { CompileSpec spec; std::string buf; std::string bufname; };

static const int EP_PAIRS[][2] = {{0, 0}, {0, 0}, {SCAN_FLAGS_FAST_MODE, 0}, {SCAN_FLAGS_REPORT_RULES_MATCHING, 10}, {SCAN_FLAGS_REPORT_RULES_NOT_MATCHING, 60}, {0, 10}, {SCAN_FLAGS_FAST_MODE | SCAN_FLAGS_REPORT_RULES_MATCHING, 1000}, {SCAN_FLAGS_REPORT_RULES_MATCHING | SCAN_FLAGS_REPORT_RULES_NOT_MATCHING, 7}};
static void entry_points(const Case& c, YR_RULES* rules, Stats& st, std::set<std::string>& reported, const std::string& only = "", int pair = -1) {
  // the (flags, timeout) pair the entry points are compared under: a function of the case, or given by the replay
  if (pair < 0) { Hash64 hp; hp.add(c.buf); hp.add(c.spec.sources[0].second); pair = (int) (hp.h % 8); }
  g_ep_flags = EP_PAIRS[pair][0]; g_ep_timeout = EP_PAIRS[pair][1]; st.c["entry.flags_timeout_pair." + std::to_string(pair)]++;
  struct Reset { ~Reset() { g_ep_flags = 0; g_ep_timeout = 0; } } reset_at_exit;
  Outcome ref = scan_mem_ref(rules, c.buf);
  std::string path = tmp_dir() + "/c13.scan";
  write_file(path, c.buf);
  auto check = [&](const char* ep, const Outcome& o) {
    st.runs++; st.c[std::string("entry.") + ep]++;
    Hash64 h; h.add(ep); h.add(c.buf); h.add(c.spec.sources[0].second); st.hash(h.h);
    if (o.rc == ref.rc && o.trace == ref.trace) return;
    std::string sig = std::string("entry|") + ep + "|" + (o.rc != ref.rc ? std::string("rc=") + yr_error_name(o.rc) : diff_tag(ref.trace, o.trace));
    st.c["viol.entry-point-disagrees"]++;
    if (!reported.insert(sig).second) return;
    J rp = J::obj(); rp.set("engine", "sim_blocks"); rp.set("kind", "entry"); rp.set("entry", ep); rp.set("pair", pair); rp.set("spec", spec_json(c.spec)); rp.set("buffer", buf_json(c.buf));
    emit_violation("C13", "entry-point-disagrees", sig, std::string(ep) + " (flags " + std::to_string(g_ep_flags) + ", timeout " + std::to_string(g_ep_timeout) + ") vs yr_rules_scan_mem on " + c.bufname + " (" + std::to_string(c.buf.size()) + " bytes): rc " + yr_error_name(o.rc) + " vs " + yr_error_name(ref.rc) + "; " + first_diff(ref.trace, o.trace), rp);
  };
  auto want = [&](const char* ep) { return only.empty() || only == ep || only.rfind(std::string(ep) + "#", 0) == 0; };
  if (want("scanner_scan_mem")) { Outcome o; Recorder rec; Exact e(c.buf); YR_SCANNER* sc = mk_scanner(rules); yr_scanner_set_callback(sc, recorder_callback, &rec); o.rc = yr_scanner_scan_mem(sc, e.p, e.n); o.trace = rec.text; yr_scanner_destroy(sc); check("scanner_scan_mem", o); }
  if (want("rules_scan_file")) { Outcome o; Recorder rec; o.rc = yr_rules_scan_file(rules, path.c_str(), g_ep_flags, recorder_callback, &rec, g_ep_timeout); o.trace = rec.text; check("rules_scan_file", o); }
  if (want("scanner_scan_file")) { Outcome o; Recorder rec; YR_SCANNER* sc = mk_scanner(rules); yr_scanner_set_callback(sc, recorder_callback, &rec); o.rc = yr_scanner_scan_file(sc, path.c_str()); o.trace = rec.text; yr_scanner_destroy(sc); check("scanner_scan_file", o); }
  // descriptor entry points: the descriptor stays the caller's (still open afterwards, nothing closed that yara did not
  // open) and can be scanned again with the same result
  auto fd_case = [&](const char* ep, bool scanner_api) {
    int fd = open(path.c_str(), O_RDONLY); int fc0 = g_fs.foreign_closes; g_fs.refuse_foreign_close = true;
    Outcome o, o2; YR_SCANNER* sc = NULL; if (scanner_api) sc = mk_scanner(rules);
    for (int round = 0; round < 2; round++) { Recorder rec; Outcome& x = round ? o2 : o; if (sc) { yr_scanner_set_callback(sc, recorder_callback, &rec); x.rc = yr_scanner_scan_fd(sc, fd); } else x.rc = yr_rules_scan_fd(rules, fd, g_ep_flags, recorder_callback, &rec, g_ep_timeout); x.trace = rec.text; }
    if (sc) yr_scanner_destroy(sc);
    g_fs.refuse_foreign_close = false;
    bool still_open = fcntl(fd, F_GETFD) != -1; bool closed_foreign = g_fs.foreign_closes != fc0;
    close(fd);
    check(ep, o);
    if (!still_open || closed_foreign) { Outcome bad = o; bad.rc = -3; bad.trace = "descriptor closed by the library"; check((std::string(ep) + "#fd-ownership").c_str(), bad); }
    else check((std::string(ep) + "#second-scan-of-same-fd").c_str(), o2);
  };
  if (want("rules_scan_fd")) fd_case("rules_scan_fd", false);
  if (want("scanner_scan_fd")) fd_case("scanner_scan_fd", true);
  if (want("rules_scan_mem_blocks")) check("rules_scan_mem_blocks", scan_blocks(rules, c.buf, {{0, c.buf.size()}}, {}, {}, {}, true));
  if (want("scanner_scan_mem_blocks")) check("scanner_scan_mem_blocks", scan_blocks(rules, c.buf, {{0, c.buf.size()}}, {}, {}, {}, false));
  // offsets do not depend on how the iterator cuts the data: the probes that count / test / read back the offset of a
  // match lying wholly inside the last block answer as they do for the undivided buffer
  if (want("two_blocks_absolute_offsets") && c.buf.size() >= 64) {
    size_t cut = c.buf.size() / 2;
    Outcome o = scan_blocks(rules, c.buf, {{0, cut}, {cut, c.buf.size() - cut}}, {}, {}, {}, false);
    auto probes = [](const std::string& t) { std::string out; size_t p = 0; while (p < t.size()) { size_t e = t.find('\n', p); std::string l = t.substr(p, e - p + 1); p = e + 1; if (l.find("c13abs:c13_cnt_in") != std::string::npos || l.find("c13abs:c13_at") != std::string::npos) { size_t sp = l.find(' ', l.find(' ') + 1); out += l.substr(0, sp) + "\n"; } } return out; };
    Outcome po = o; po.trace = probes(o.trace); Outcome pref = ref; std::string keep = ref.trace; 
    // compare against the reference's probe lines only
    { std::string want_t = probes(keep); if (!(po.rc == ref.rc && po.trace == want_t)) { Outcome bad = po; if (po.rc == ref.rc) { bad.trace = ref.trace + "#two-blocks: " + po.trace + " instead of " + want_t; } check("two_blocks_absolute_offsets", bad); } else { st.runs++; st.c["entry.two_blocks_absolute_offsets"]++; } }
  }
  // ---- file syscall faults: documented error, no callback, ledgers balanced
  if (only.empty() || only == "syscall-faults") {
    struct F { const char* what; int* slot; int expect; };
    for (int f = 0; f < 4; f++) {
      sim_fs_reset();
      int expect = ERROR_COULD_NOT_OPEN_FILE;
      if (f == 0) g_fs.fail_open_at = 1; else if (f == 1) { g_fs.fail_fstat_at = 1; } else if (f == 2) { g_fs.fail_mmap_at = 1; expect = ERROR_COULD_NOT_MAP_FILE; } else { g_fs.fail_fstatfs_at = 1; expect = -2; }
      if (c.buf.empty() && f >= 2) { sim_fs_reset(); continue; }      // nothing is mapped for an empty file
      Recorder rec; int rc = yr_rules_scan_file(rules, path.c_str(), 0, recorder_callback, &rec, 0);
      int fired = g_fs.faults_fired, fds = g_fs.open_fds, maps = g_fs.live_maps;
      sim_fs_reset();
      st.runs++; static const char* names[] = {"open", "fstat", "mmap", "fstatfs"};
      if (!fired) { st.c[std::string("probe.syscall_fault_not_reached.") + names[f]]++; continue; }
      st.c[std::string("faults_fired.") + names[f] + "_error"]++;
      Hash64 h; h.add("sysfault"); h.addu(f); h.add(c.buf); st.hash(h.h);
      std::string sig;
      if (fds != 0 || maps != 0) sig = std::string("sysfault|") + names[f] + "|leaked-fd-or-mapping";
      else if (expect == -2) { if (rc != ERROR_SUCCESS && rc != ERROR_COULD_NOT_OPEN_FILE && rc != ERROR_COULD_NOT_MAP_FILE) sig = std::string("sysfault|fstatfs|rc=") + yr_error_name(rc); else if (rc == ERROR_SUCCESS && rec.text != ref.trace) sig = "sysfault|fstatfs|different-result"; }
      else if (rc != expect && !(f == 1 && rc == ERROR_COULD_NOT_MAP_FILE)) sig = std::string("sysfault|") + names[f] + "|rc=" + yr_error_name(rc);
      else if (rec.nmsgs != 0) sig = std::string("sysfault|") + names[f] + "|callback-invoked";
      if (!sig.empty()) { st.c["viol.syscall-fault"]++; if (reported.insert(sig).second) { J rp = J::obj(); rp.set("engine", "sim_blocks"); rp.set("kind", "entry"); rp.set("entry", "syscall-faults"); rp.set("spec", spec_json(c.spec)); rp.set("buffer", buf_json(c.buf)); emit_violation("C13", "syscall-fault", sig, std::string(names[f]) + " failed: rc=" + yr_error_name(rc) + " msgs=" + std::to_string(rec.nmsgs) + " fds=" + std::to_string(fds) + " maps=" + std::to_string(maps), rp); } }
    }
  }
  unlink(path.c_str());
}

static void judge_interrupt(const Case& c, const std::vector<std::pair<size_t, size_t>>& parts, const std::map<int, int>& nr, const std::set<int64_t>& reiter, const std::set<int>& fnull,
                            const Outcome& ref, const Outcome& o, int64_t fired, Stats& st, std::set<std::string>& reported) {
  std::string sig, klass, detail;
  bool re = !reiter.empty();
  int64_t expect_calls = 1; for (auto& kv : nr) expect_calls += kv.second;
  std::string phase = re ? "re-iteration" : "first-pass";
  for (size_t i = 0; i + 1 < o.rcs.size(); i++) if (o.rcs[i] != ERROR_BLOCK_NOT_READY) { sig = "interrupt|" + phase + "|intermediate-rc=" + yr_error_name(o.rcs[i]); klass = "wrong-intermediate-result"; }
  if (sig.empty() && o.bad_intermediate) { sig = "interrupt|" + phase + "|rule-message-before-completion"; klass = "wrong-intermediate-result"; }
  if (sig.empty() && o.rc == ERROR_BLOCK_NOT_READY) { sig = "interrupt|" + phase + "|never-completes"; klass = "no-progress"; detail = "still not-ready after " + std::to_string(o.calls) + " calls with " + std::to_string(fired) + " not-ready answers"; }
  if (sig.empty() && o.rc != ref.rc) { sig = "interrupt|" + phase + "|rc=" + yr_error_name(o.rc); klass = "result-differs"; }
  if (sig.empty() && o.trace != ref.trace) { sig = "interrupt|" + phase + "|" + (re ? std::string("success-with-different-verdict") : diff_tag(ref.trace, o.trace)); klass = "result-differs"; detail = first_diff(ref.trace, o.trace); }
  if (sig.empty() && !re && fired > 0 && o.calls != expect_calls) { sig = "interrupt|first-pass|calls=" + std::string(o.calls < expect_calls ? "fewer" : "more"); klass = "wrong-intermediate-result"; detail = std::to_string(o.calls) + " calls for " + std::to_string(fired) + " not-ready answers"; }
  if (sig.empty()) return;
  st.c["viol." + klass]++;
  if (!reported.insert(sig).second) return;
  J rp = J::obj(); rp.set("engine", "sim_blocks"); rp.set("kind", "interrupt"); rp.set("spec", spec_json(c.spec)); rp.set("buffer", buf_json(c.buf)); rp.set("partition", parts_json(parts));
  J n = J::arr(); for (auto& kv : nr) { J e = J::arr(); e.push(kv.first); e.push(kv.second); n.push(e); } rp.set("not_ready", n);
  J r2 = J::arr(); for (auto x : reiter) r2.push((int64_t) x); rp.set("reiter_not_ready", r2);
  J f2 = J::arr(); for (auto x : fnull) f2.push(x); rp.set("fetch_null", f2);
  std::string plan; for (auto& kv : nr) plan += "block" + std::to_string(kv.first) + "x" + std::to_string(kv.second) + " "; for (auto x : reiter) plan += "reiter-call" + std::to_string(x) + " ";
  emit_violation("C13", klass, sig, "partition of " + std::to_string(parts.size()) + " blocks on " + c.bufname + ", not-ready at: " + plan + "; " + detail, rp);
}

static void interrupted(const Case& c, YR_RULES* rules, Rng& rng, bool thorough, Stats& st, std::set<std::string>& reported) {
  int nparts = thorough ? 4 : 2;
  for (int pi = 0; pi < nparts; pi++) {
    int b = c.buf.empty() ? 1 : (pi == 0 ? (int) rng.range(1, 3) : (int) rng.range(2, thorough ? 5 : 4));
    if (pi == nparts - 1 && thorough && c.buf.size() > 64) b = (int) rng.range(6, 12);
    auto parts = make_partition(rng, c.buf.size(), b, rng.chance(1, 4));
    b = (int) parts.size();
    std::set<int> fnull; if (rng.chance(1, 8) && b > 1) fnull.insert((int) rng.below(b));
    Outcome ref = scan_blocks(rules, c.buf, parts, {}, {}, fnull, false);
    // --- every subset of the b+1 logical calls (exhaustive for b <= 5, sampled above)
    int npos = b + 1; uint64_t nsub = npos <= 6 ? (1ULL << npos) : 0;
    int samples = nsub ? 0 : 48;
    for (uint64_t m = 1; nsub ? m < nsub : (int) m <= samples; m++) {
      uint64_t mask = nsub ? m : (rng.next() & ((1ULL << npos) - 1)); if (!mask) continue;
      std::map<int, int> nr; int rep = rng.chance(1, 6) ? (int) rng.range(2, 3) : 1; bool first = true;
      for (int p = 0; p < npos; p++) if (mask >> p & 1) { nr[p] = first ? rep : 1; first = false; }
      int64_t fired = 0;
      Outcome o = scan_blocks(rules, c.buf, parts, nr, {}, fnull, false, &fired);
      st.runs++; st.c["faults_fired.not_ready"] += fired; if (!fnull.empty()) st.c["faults_fired.fetch_null"]++;
      if (mask >> b & 1) st.c["probe.not_ready_at_end_of_iteration"]++;
      if (mask & 1) st.c["probe.not_ready_at_first"]++;
      Hash64 h; h.add("int"); h.add(c.buf); h.add(c.spec.sources[0].second); for (auto& p : parts) h.addu(p.first); h.addu(mask); h.addu(rep); st.hash(h.h);
      judge_interrupt(c, parts, nr, {}, fnull, ref, o, fired, st, reported);
    }
    if (nsub) st.c["partitions_with_every_subset"]++;
    // --- not-ready during the re-iteration done by rule evaluation
    int64_t recalls = 0; scan_blocks(rules, c.buf, parts, {}, {}, fnull, false, nullptr, &recalls);
    st.c["max.reiteration_calls"] = std::max<int64_t>(st.c["max.reiteration_calls"], recalls);
    int tries = (int) std::min<int64_t>(recalls, thorough ? 12 : 4);
    for (int k = 0; k < tries; k++) {
      std::set<int64_t> re; re.insert(recalls <= tries ? k : (int64_t) rng.below(recalls));
      int64_t fired = 0;
      Outcome o = scan_blocks(rules, c.buf, parts, {}, re, fnull, false, &fired);
      st.runs++; st.c["faults_fired.not_ready_during_reiteration"] += fired;
      Hash64 h; h.add("re"); h.add(c.buf); h.add(c.spec.sources[0].second); h.addu(*re.begin()); st.hash(h.h);
      judge_interrupt(c, parts, {}, re, fnull, ref, o, fired, st, reported);
    }
    if (st.samples.size() < 4) { J s = J::obj(); s.set("buffer", c.bufname); s.set("blocks", b); s.set("subsets", nsub ? (int64_t) nsub - 1 : samples); s.set("exhaustive", nsub != 0); s.set("reiteration_calls", recalls); s.set("rules", c.spec.sources[0].second.substr(0, 300)); st.sample(s); }
  }
}

static std::vector<Case> make_cases(uint64_t seed, int i) {
  Rng rng(sim_run_seed(seed, 3000 + i));
  LabCase lc = gen_labcase(rng, i % 3 == 0 ? 10 : 5, true, i % 4 == 0, true);
  // rules that read data during evaluation and depend on the entry point, in every case
  // functions over the whole input (byte distribution) on inputs down to zero bytes: a mapped empty file has no data pointer
  lc.spec.sources[0].second = "import \"math\"\n" + lc.spec.sources[0].second + "rule c13_dist { condition: defined math.mode() and math.count(0x7a) >= 0 }\n";
  lc.spec.sources[0].second += "rule c13_ep { condition: entrypoint >= 0 }\nrule c13_u8 { condition: uint8(0) == 0x48 or uint16(1) == 0x4145 }\nrule c13_fw { strings: $a = \"tailword\" fullword condition: $a }\n";
  // offsets are absolute, whatever block a match was found in: counted in a range, tested at a position, read back.
  // In a namespace of their own: a generated global rule whose string straddles the cut legitimately fails in a
  // two-block scan and would take every rule of its namespace with it.
  lc.spec.sources.push_back({"c13abs", "rule c13_cnt_in { strings: $t = \"tailword\" condition: #t in (filesize \\ 2..filesize) == 1 }\nrule c13_at { strings: $t = \"tailword\" condition: #t > 0 and $t at (filesize - 8) and @t[#t] == filesize - 8 and $t in (filesize - 9..filesize) }\n"});
  std::vector<Case> v;
  std::string text = lc.buffers[0];
  static const size_t sizes[] = {0, 1, 100, 4095, 4096, 4097, 8192};
  size_t want = sizes[rng.below(7)];
  std::string sized = text.substr(0, std::min(text.size(), want)); while (sized.size() < want) sized += text.empty() ? "x" : text.substr(0, std::min(text.size(), want - sized.size()));
  if (want >= 16) sized.replace(want - 9, 9, " tailword");      // a fullword match ending at the very last byte
  v.push_back({lc.spec, text + " tailword", "text+plants"});
  v.push_back({lc.spec, sized, "sized-" + std::to_string(want)});
  if (i % 2 == 0) v.push_back({lc.spec, corpus_file(SAMPLES[(i / 2) % 2]), SAMPLES[(i / 2) % 2]});
  return v;
}

int main(int argc, char** argv) {
  Args args(argc, argv);
  std::string cmd = args.pos.empty() ? "run" : args.pos[0];
  yr_initialize();
  Stats st; std::set<std::string> reported;
  if (cmd == "replay") {
    J rp; if (args.pos.size() < 2 || !J::load(args.pos[1], rp)) return 2;
    const J& c = rp.has("replay") ? rp["replay"] : rp;
    if (c["kind"].str() == "case") {
      // a whole generated case (used when the worker died inside it): re-run in this process
      std::vector<Case> cases = make_cases((uint64_t) c["seed"].num(), (int) c["case"].num());
      CompileResult cr = compile_rules(cases[0].spec); if (!cr.rules) return 2;
      Rng rng(sim_run_seed((uint64_t) c["seed"].num(), 7000 + c["case"].num()));
      for (auto& x : cases) { entry_points(x, cr.rules, st, reported); interrupted(x, cr.rules, rng, c["thorough"].truthy(), st, reported); }
      yr_rules_destroy(cr.rules); J done = J::obj(); done.set("t", "replayed"); emit_line(done); return 0;
    }
    Case cs; cs.spec = spec_from_json(c["spec"]); cs.buf = buf_from(c["buffer"]); cs.bufname = "replayed buffer";
    CompileResult cr = compile_rules(cs.spec); if (!cr.rules) { fprintf(stderr, "replay: rules do not compile: %s\n", cr.messages.c_str()); return 2; }
    if (c["kind"].str() == "entry") entry_points(cs, cr.rules, st, reported, c["entry"].str(), c.has("pair") ? (int) c["pair"].num() : 0);
    else {
      auto parts = parts_from(c["partition"]); std::map<int, int> nr; std::set<int64_t> re; std::set<int> fn;
      for (size_t i = 0; i < c["not_ready"].size(); i++) nr[(int) c["not_ready"][i][0].num()] = (int) c["not_ready"][i][1].num();
      for (size_t i = 0; i < c["reiter_not_ready"].size(); i++) re.insert(c["reiter_not_ready"][i].num());
      for (size_t i = 0; i < c["fetch_null"].size(); i++) fn.insert((int) c["fetch_null"][i].num());
      Outcome ref = scan_blocks(cr.rules, cs.buf, parts, {}, {}, fn, false);
      int64_t fired = 0; Outcome o = scan_blocks(cr.rules, cs.buf, parts, nr, re, fn, false, &fired);
      judge_interrupt(cs, parts, nr, re, fn, ref, o, fired, st, reported);
    }
    yr_rules_destroy(cr.rules);
    J done = J::obj(); done.set("t", "replayed"); emit_line(done);
    return 0;
  }
  Shard sh = parse_shard(args);
  bool thorough = args.get("tier", "quick") == "thorough";
  uint64_t seed = args.num("seed", 1);
  int64_t from = args.num("from", 0);
  double budget = (double) args.num("budget", thorough ? 1200 : 60), t0 = now_s();
  int ncases = (int) args.num("cases", thorough ? 4000 : 128);
  for (int i = (int) from; i < ncases; i++) {
    if (!sh.mine(i)) continue;
    if (now_s() - t0 > budget) { st.c["stopped_by_budget"]++; break; }
    { J b = J::obj(); b.set("t", "begin"); b.set("run", i); J rp = J::obj(); rp.set("engine", "sim_blocks"); rp.set("kind", "case"); rp.set("case", i); rp.set("seed", (int64_t) seed); rp.set("thorough", thorough); b.set("replay", rp); emit_line(b); }
    std::vector<Case> cases = make_cases(seed, i);
    CompileResult cr = compile_rules(cases[0].spec);
    if (!cr.rules) { emit_note("c13: case does not compile: " + cr.messages.substr(0, 200)); continue; }
    Rng rng(sim_run_seed(seed, 7000 + i));
    for (auto& c : cases) { entry_points(c, cr.rules, st, reported); interrupted(c, cr.rules, rng, thorough, st, reported); }
    yr_rules_destroy(cr.rules);
    st.c["cases"]++;
    { J e = J::obj(); e.set("t", "end"); emit_line(e); }
    st.flush(false);
  }
  st.flush();
  yr_finalize();
  return 0;
}
