// Self-test of the RuleLab catalogue: every fragment compiles; plantable ones
// match a buffer containing their plant; module fragments evaluate on samples.
#include "yru.h"
#include "rulelab.h"
int main(int argc, char** argv) {
  yr_initialize();
  int bad = 0;
  Rng rng(1);
  for (int i = 0; i < NFRAGS; i++) {
    GenSet g; GenRule r; r.frag = i; r.name = "x"; g.rules.push_back(r);
    CompileSpec cs; cs.sources.push_back({"", g.source()});
    CompileResult cr = compile_rules(cs);
    if (!cr.rules) { printf("FRAG %s: compile failed: %s", FRAGS[i].name, cr.messages.c_str()); bad++; continue; }
    std::string buf = gen_text_buffer(rng, g.plants(), 256);
    Recorder rec; rec.with_module_tree = false;
    int rc = yr_rules_scan_mem(cr.rules, (const uint8_t*) buf.data(), buf.size(), 0, recorder_callback, &rec, 0);
    bool m = rec.text.find("MATCH default:x") == 0 || rec.text.find("\nMATCH default:x") != std::string::npos;
    printf("FRAG %-10s rc=%s text-match=%d%s\n", FRAGS[i].name, yr_error_name(rc), m, (*FRAGS[i].plant && !m) ? "  <-- plant does not match" : "");
    if (*FRAGS[i].plant && !m) bad++;
    yr_rules_destroy(cr.rules);
  }
  // whole catalogue against each sample
  GenSet all = gen_all_frags();
  YR_RULES* rules = compile_simple(all.source());
  const char* samples[] = {"tiny", "elf_with_imports", "0ca09bde7602769120fadc4f7a4147347a7a97271370583586c9e587fd396171", "tiny-universal", "../oss-fuzz/dex_fuzzer_corpus/b1203d95c56f02e7e6dbea714275cc05b47ac2510958b85f436571b801af44e7", "079a472d22290a94ebb212aa8015cdc8dd28a968c6b4d3b88acdd58ce2d3b885", "3b8b90159fa9b6048cc5410c5d53f116943564e4d05b04a843f9b3d0540d0c1c", "mtxex.dll"};
  for (const char* s : samples) {
    std::string d = corpus_file(s);
    Recorder rec; g_alloc.attempts = 0;
    int rc = yr_rules_scan_mem(rules, (const uint8_t*) d.data(), d.size(), 0, recorder_callback, &rec, 0);
    int nm = 0; for (size_t p = 0; (p = rec.text.find("MATCH ", p)) != std::string::npos; p++) if (p == 0 || rec.text[p - 1] == '\n') nm++;
    printf("SAMPLE %-20.20s rc=%s matching=%d msgs=%d allocs=%ld\n", s, yr_error_name(rc), nm, rec.nmsgs, (long) g_alloc.attempts);
    if (argc > 1) fputs(rec.text.c_str(), stdout);
  }
  yr_rules_destroy(rules);
  yr_finalize();
  printf("live after finalize: %zu  bad=%d\n", sim_alloc_live_count(), bad);
  for (auto& r : sim_alloc_live()) printf("  leak %zu bytes at %s\n", r.size, sim_bt_chain(r.bt, 1, 4).c_str());
  return bad ? 1 : 0;
}
