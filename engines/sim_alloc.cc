// C16 — allocation failure anywhere is reported, never suffered.
// Engine: for every scenario of a fixed set, for every k, the k-th allocation
// made by yara code fails (mode A) or the k-th and all later ones fail (mode B).
// Each (scenario, k, mode) runs in a forked child.  DESIGN.md §5.C16.
#include "engine.h"
#include <sys/stat.h>
#include <fcntl.h>
#include "rulelab.h"
#include <unistd.h>
#include <fcntl.h>
#include <signal.h>
#include <sys/prctl.h>
#include <sys/wait.h>

// ---------------------------------------------------------------- scenario --
struct Step { std::string name; std::string rc; uint64_t out; bool faulted; char kind; };
struct Sc {
  std::vector<Step> steps;
  bool inited = false, armed = false;
  int64_t plan_k = -1; bool plan_from = false;
  std::vector<YR_COMPILER*> compilers; std::vector<YR_RULES*> rules; std::vector<YR_SCANNER*> scanners;
  std::vector<void*> yr_blocks;   // memory to be released with yr_free
  std::string comp_msgs; int comp_cb_errors = 0;
  // run with faults off after the scenario stopped (for whatever reason), before anything is destroyed: returns ""
  // if the surviving objects still behave, else what is wrong with them
  std::function<std::string()> probe;
  int64_t f0 = 0;
  void arm() { if (armed) return; armed = true; g_alloc.attempts = 0; g_alloc.fail_at = plan_k; g_alloc.fail_from = plan_from; }
  void pre() { f0 = g_alloc.failed; }
  // status-returning API
  bool S(const char* name, int rc, const std::string& out = "") {
    Hash64 h; h.add(out);
    steps.push_back({name, yr_error_name(rc), h.h, g_alloc.failed > f0, 'S'});
    if (getenv("SIM_DEBUG_STEPS")) fprintf(stderr, "step %s rc=%s faulted=%d attempts=%lld\n", name, yr_error_name(rc), (int) (g_alloc.failed > f0), (long long) g_alloc.attempts);
    return rc == ERROR_SUCCESS;
  }
  // compile API: error count
  bool C(const char* name, int errors) {
    std::string rc = errors == 0 ? "0" : (comp_cb_errors > 0 ? "errors" : "errors-undiagnosed");
    steps.push_back({name, rc, 0, g_alloc.failed > f0, 'C'});
    if (getenv("SIM_DEBUG_STEPS")) fprintf(stderr, "step %s errors=%d (%s) faulted=%d attempts=%lld msgs=%s\n", name, errors, rc.c_str(), (int) (g_alloc.failed > f0), (long long) g_alloc.attempts, comp_msgs.substr(0, 200).c_str());
    return errors == 0;
  }
  void finish() {
    g_alloc.cur_op = 99;
    for (auto s : scanners) yr_scanner_destroy(s);
    for (auto r : rules) yr_rules_destroy(r);
    for (auto c : compilers) yr_compiler_destroy(c);
    for (auto p : yr_blocks) yr_free(p);
    if (inited) yr_finalize();
    scanners.clear(); rules.clear(); compilers.clear(); yr_blocks.clear(); inited = false;
  }
};
#define ST(s, name, expr) ((s).pre(), (s).S(name, (expr)))
#define STO(s, name, expr, out) ((s).pre(), [&] { int rc__ = (expr); return (s).S(name, rc__, (out)); }())

static void sc_comp_cb(int level, const char* file, int line, const YR_RULE* rule, const char* msg, void* user) {
  Sc* s = (Sc*) user; if (level == YARA_ERROR_LEVEL_ERROR) s->comp_cb_errors++;
}

static bool sc_init(Sc& s) { s.pre(); int rc = yr_initialize(); if (rc == ERROR_SUCCESS) s.inited = true; return s.S("yr_initialize", rc); }
static YR_COMPILER* sc_compiler(Sc& s) {
  YR_COMPILER* c = NULL; s.pre(); int rc = yr_compiler_create(&c);
  if (!s.S("yr_compiler_create", rc)) return NULL;
  s.compilers.push_back(c); yr_compiler_set_callback(c, sc_comp_cb, &s); return c;
}
static bool sc_add(Sc& s, YR_COMPILER* c, const std::string& src, const char* ns = NULL) {
  s.pre(); s.comp_cb_errors = 0; int n = yr_compiler_add_string(c, src.c_str(), ns); return s.C("yr_compiler_add_string", n);
}
static YR_RULES* sc_get_rules(Sc& s, YR_COMPILER* c) {
  YR_RULES* r = NULL; s.pre(); int rc = yr_compiler_get_rules(c, &r);
  if (!s.S("yr_compiler_get_rules", rc)) return NULL;
  s.rules.push_back(r); return r;
}
// compile (before arming unless the scenario is about compiling)
static YR_RULES* sc_compile(Sc& s, const std::string& src) {
  YR_COMPILER* c = sc_compiler(s); if (!c) return NULL;
  if (!sc_add(s, c, src)) return NULL;
  return sc_get_rules(s, c);
}
static bool sc_scan_mem(Sc& s, YR_RULES* r, const std::string& buf, const char* name = "yr_rules_scan_mem", int flags = 0) {
  Recorder rec; s.pre();
  int rc = yr_rules_scan_mem(r, (const uint8_t*) buf.data(), buf.size(), flags, recorder_callback, &rec, 0);
  return s.S(name, rc, rec.text);
}

static std::string frags_src(std::initializer_list<const char*> names) {
  GenSet g; int i = 0;
  for (const char* n : names) { GenRule r; r.frag = frag_index(n); if (r.frag < 0) { fprintf(stderr, "no frag %s\n", n); abort(); } r.name = std::string("r") + std::to_string(i++) + "_" + n; g.rules.push_back(r); }
  return g.source();
}
static std::string frags_plants(std::initializer_list<const char*> names) {
  std::string p; for (const char* n : names) { p += unescape(FRAGS[frag_index(n)].plant); p += " .. "; } return p;
}

#define STR_FRAGS {"text", "wide", "widescii", "nocase", "xor", "base64", "fullword", "privstr", "hexjump", "hexchain", "hexalt", "hexneg", "widenocase", "xorwide", "fullwide"}
#define RE_FRAGS {"regreedy", "relazy", "rewide", "realt", "matches", "strops"}
#define COND_FRAGS {"count", "atzero", "inrange", "ofset", "allof", "noneof", "forof", "forin", "forrange", "nested", "filesize", "entryp", "uints", "notstr", "zerocount", "arith", "countin", "ofin", "ofat", "pctof", "forofat", "intenum", "bitops", "dblops", "strcmp", "uintsmore", "definedop"}

static const char* PE_TINY = "tiny";
static const char* PE_SIGNED = "079a472d22290a94ebb212aa8015cdc8dd28a968c6b4d3b88acdd58ce2d3b885";
static const char* ELF_S = "elf_with_imports";
static const char* DOTNET_S = "0ca09bde7602769120fadc4f7a4147347a7a97271370583586c9e587fd396171";
static const char* MACHO_S = "tiny-universal";
static const char* DEX_S = "../oss-fuzz/dex_fuzzer_corpus/b1203d95c56f02e7e6dbea714275cc05b47ac2510958b85f436571b801af44e7";

typedef void (*ScenFn)(Sc&);
struct Scenario { const char* name; ScenFn fn; };

// A compilation that "succeeds" around a failed allocation must have produced rules that work - also after a round trip
// through their serialised form, where a pointer that was never registered as relocatable shows.  The comparison is
// behavioural (traces of the original and of the loaded copy against the fault-free run), not byte-wise: yara may
// legitimately fall back to a slower representation when an optional allocation fails (a literal kept as a regexp).
static void compile_only(Sc& s, const std::string& src, const std::string& buf = "") {
  s.arm(); if (!sc_init(s)) return; YR_RULES* r = sc_compile(s, src); if (!r) return;
  if (!sc_scan_mem(s, r, buf)) return;
  MemStream ms; YR_STREAM st = ms.stream();
  if (!ST(s, "yr_rules_save_stream", yr_rules_save_stream(r, &st))) return;
  YR_RULES* l = NULL; ms.pos = 0;
  if (!ST(s, "yr_rules_load_stream", yr_rules_load_stream(&st, &l))) return;
  s.rules.push_back(l);
  sc_scan_mem(s, l, buf, "scan_loaded");
}
static void scan_only(Sc& s, const std::string& src, const std::string& buf) {
  if (!sc_init(s)) return; YR_RULES* r = sc_compile(s, src); if (!r) return;
  s.arm(); sc_scan_mem(s, r, buf);
}

static void s_init_fini(Sc& s) { s.arm(); sc_init(s); }
static void s_compile_strings(Sc& s) { compile_only(s, frags_src(STR_FRAGS), "HEAD " + frags_plants(STR_FRAGS)); }
static void s_compile_regex(Sc& s) { compile_only(s, frags_src(RE_FRAGS), "HEAD " + frags_plants(RE_FRAGS)); }
static void s_compile_cond(Sc& s) { compile_only(s, frags_src(COND_FRAGS), "HEAD " + frags_plants(COND_FRAGS)); }
// the same compilations with arena buffers that start at 64 bytes: every few writes into a section grow it, so the
// growth reallocs of all twelve sections (and every caller that must notice their failure) become fault sites
static void s_compile_strings_tiny(Sc& s) { g_arena_initial_size = 64; compile_only(s, frags_src(STR_FRAGS), "HEAD " + frags_plants(STR_FRAGS)); g_arena_initial_size = 0; }
static void s_compile_regex_tiny(Sc& s) { g_arena_initial_size = 64; compile_only(s, frags_src(RE_FRAGS), "HEAD " + frags_plants(RE_FRAGS)); g_arena_initial_size = 0; }
static void s_compile_cond_tiny(Sc& s) { g_arena_initial_size = 64; compile_only(s, frags_src(COND_FRAGS), "HEAD " + frags_plants(COND_FRAGS)); g_arena_initial_size = 0; }

// A small rule set that goes through the emit sites of quantifiers, string sets, rule sets, `defined` and the
// anonymous `$ # @ !` of a for-of body, compiled with arena buffers of S bytes for a range of S: every S puts the
// growth reallocs of the code section at other instructions, so that (over all S) each emit is at some point the
// one whose buffer growth fails.
static const char* TINY_SRC =
  "rule t_a { strings: $a = \"aaaa\" $b = \"bbbb\" condition: for any of them : ( $ at 0 or # > 1 or @ > 2 or ! > 3 ) }\n"
  "rule t_b { strings: $a = \"aaaa\" $b1 = \"bbbb\" $b2 = \"cccc\" condition: none of ($b*) or all of ($a, $b1) or any of them }\n"
  "rule t_c { condition: defined filesize and not defined uint8(filesize + 5) }\n"
  "rule t_d { condition: any of (t_a, t_b) and 1 of (t_*) and for all i in (1, 2, 3) : ( i > 0 ) }\n";
static const char* TINY_BUF = "aaaa....bbbb aaaa";
template <int S> static void s_tiny_sweep(Sc& s) { g_arena_initial_size = S; compile_only(s, TINY_SRC, TINY_BUF); g_arena_initial_size = 0; }
static void s_compile_pe(Sc& s) { compile_only(s, frags_src({"pe", "pefunc", "pesig", "perich"})); }
static void s_compile_elf(Sc& s) { compile_only(s, frags_src({"elf", "elfsec"})); }
static void s_compile_dotnet(Sc& s) { compile_only(s, frags_src({"dotnet"})); }
static void s_compile_macho(Sc& s) { compile_only(s, frags_src({"macho"})); }
static void s_compile_dex(Sc& s) { compile_only(s, frags_src({"dex"})); }
static void s_compile_small_mods(Sc& s) { compile_only(s, frags_src({"math", "hash", "hashtwice", "string", "time", "console", "tests", "testsdata", "testsiter"})); }
static void s_compile_error(Sc& s) {
  s.arm(); if (!sc_init(s)) return; YR_COMPILER* c = sc_compiler(s); if (!c) return;
  sc_add(s, c, "rule ok1 { strings: $a = \"abc\" $b = /x[0-9]+y/ condition: $a and $b }\nrule bad { strings: $a = { AA [3-1] BB } condition: $a and undefined_ident }\n");
}
static void s_compile_namespaces(Sc& s) {
  s.arm(); if (!sc_init(s)) return; YR_COMPILER* c = sc_compiler(s); if (!c) return;
  if (!sc_add(s, c, "global rule g1 { condition: filesize >= 0 }\nrule a { strings: $a = \"nsA\" condition: $a }", "ns1")) return;
  if (!sc_add(s, c, "private rule p { condition: true }\nrule b { condition: p and filesize < 100000 }", "ns2")) return;
  YR_RULES* r = sc_get_rules(s, c); if (!r) return;
  sc_scan_mem(s, r, "xx nsA xx");
}
static const char* inc_cb(const char* name, const char* cur, const char* ns, void* user) {
  if (!strcmp(name, "one.yar")) return strdup("include \"two.yar\"\nrule inc_one { condition: inc_two }\n");
  if (!strcmp(name, "two.yar")) return strdup("rule inc_two { strings: $a = \"incl\" condition: $a }\n");
  return NULL;
}
static void inc_free(const char* p, void* user) { free((void*) p); }
static void s_compile_include(Sc& s) {
  s.arm(); if (!sc_init(s)) return; YR_COMPILER* c = sc_compiler(s); if (!c) return;
  yr_compiler_set_include_callback(c, inc_cb, inc_free, NULL);
  if (!sc_add(s, c, "include \"one.yar\"\nrule top { condition: inc_one }\n")) return;
  YR_RULES* r = sc_get_rules(s, c); if (!r) return;
  sc_scan_mem(s, r, "zz incl zz");
}

// include files read by yara's own include callback (open / fstat / read of real files) and rules given through a file
// descriptor and through a FILE*: the file-reading entry points of the compiler under allocation failure
static void s_compile_files(Sc& s) {
  std::string dir = tmp_dir() + "/c16inc"; mkdir(dir.c_str(), 0755);
  write_file(dir + "/two.yar", "rule inc_two { strings: $a = \"incl\" condition: $a }\n");
  write_file(dir + "/one.yar", "include \"two.yar\"\nrule inc_one { condition: inc_two }\n");
  write_file(dir + "/top.yar", "include \"" + dir + "/one.yar\"\nrule top { condition: inc_one }\n");
  write_file(dir + "/more.yar", "rule more { strings: $m = /mo+re/ condition: $m }\n");
  s.arm(); if (!sc_init(s)) return; YR_COMPILER* c = sc_compiler(s); if (!c) return;
  { int fd = open((dir + "/top.yar").c_str(), O_RDONLY); s.pre(); s.comp_cb_errors = 0; int n = yr_compiler_add_fd(c, fd, NULL, "top.yar"); close(fd); if (!s.C("yr_compiler_add_fd", n)) return; }
  { FILE* f = fopen((dir + "/more.yar").c_str(), "r"); s.pre(); s.comp_cb_errors = 0; int n = yr_compiler_add_file(c, f, "ns2", "more.yar"); fclose(f); if (!s.C("yr_compiler_add_file", n)) return; }
  YR_RULES* r = sc_get_rules(s, c); if (!r) return;
  sc_scan_mem(s, r, "zz incl zz moooore");
}
static const char* EXT_RULES =
  "rule e_int { condition: ext_i == 7 }\nrule e_bool { condition: ext_b }\nrule e_float { condition: ext_f > 1.0 }\n"
  "rule e_str { condition: ext_s contains \"needle\" and ext_s matches /ne+dle/ }\nrule e_at { strings: $a = \"MARK\" condition: $a at ext_i }\n";

// After a definition that failed under the fault, the same compiler is used on (faults off): the definitions are
// completed (an already defined one may answer DUPLICATED), rules compiled and scanned; the verdicts must be those of
// a compiler that never saw a fault.
static void s_externals_retry(Sc& s) {
  s.arm(); if (!sc_init(s)) return; YR_COMPILER* c = sc_compiler(s); if (!c) return;
  static int stage; stage = 0;
  s.probe = [c]() -> std::string {
    if (stage < 1 || stage > 4) return "";
    auto ok = [](int rc) { return rc == ERROR_SUCCESS || rc == ERROR_DUPLICATED_EXTERNAL_VARIABLE; };
    if (!ok(yr_compiler_define_integer_variable(c, "ext_i", 7))) return "retry-define-integer";
    if (!ok(yr_compiler_define_boolean_variable(c, "ext_b", 1))) return "retry-define-boolean";
    if (!ok(yr_compiler_define_float_variable(c, "ext_f", 2.5))) return "retry-define-float";
    if (!ok(yr_compiler_define_string_variable(c, "ext_s", "hay needle hay"))) return "retry-define-string";
    if (yr_compiler_add_string(c, EXT_RULES, NULL) != 0) return "compile-after-failed-define";
    YR_RULES* r = NULL; if (yr_compiler_get_rules(c, &r) != ERROR_SUCCESS) return "get-rules-after-failed-define";
    std::string buf = "0123456MARK.... hay needle";
    Recorder got; int rc = yr_rules_scan_mem(r, (const uint8_t*) buf.data(), buf.size(), 0, recorder_callback, &got, 0); yr_rules_destroy(r);
    CompileSpec cs; cs.externals.push_back({"ext_i", 'i', 7, 0, ""}); cs.externals.push_back({"ext_b", 'b', 1, 0, ""}); cs.externals.push_back({"ext_f", 'f', 0, 2.5, ""}); cs.externals.push_back({"ext_s", 's', 0, 0, "hay needle hay"});
    cs.sources.push_back({"", EXT_RULES}); CompileResult cr = compile_rules(cs); if (!cr.rules) return "harness: reference does not compile";
    Recorder ref; int rc2 = yr_rules_scan_mem(cr.rules, (const uint8_t*) buf.data(), buf.size(), 0, recorder_callback, &ref, 0); yr_rules_destroy(cr.rules);
    if (rc != rc2 || got.text != ref.text) return "externals-differ-after-failed-define: stage " + std::to_string(stage);
    return "";
  };
  stage = 1; if (!ST(s, "yr_compiler_define_integer_variable", yr_compiler_define_integer_variable(c, "ext_i", 7))) return;
  stage = 2; if (!ST(s, "yr_compiler_define_boolean_variable", yr_compiler_define_boolean_variable(c, "ext_b", 1))) return;
  stage = 3; if (!ST(s, "yr_compiler_define_float_variable", yr_compiler_define_float_variable(c, "ext_f", 2.5))) return;
  stage = 4; if (!ST(s, "yr_compiler_define_string_variable", yr_compiler_define_string_variable(c, "ext_s", "hay needle hay"))) return;
  stage = 5;
}

static void s_externals(Sc& s) {
  s.arm(); if (!sc_init(s)) return; YR_COMPILER* c = sc_compiler(s); if (!c) return;
  if (!ST(s, "yr_compiler_define_integer_variable", yr_compiler_define_integer_variable(c, "ext_i", 7))) return;
  if (!ST(s, "yr_compiler_define_boolean_variable", yr_compiler_define_boolean_variable(c, "ext_b", 1))) return;
  if (!ST(s, "yr_compiler_define_float_variable", yr_compiler_define_float_variable(c, "ext_f", 2.5))) return;
  if (!ST(s, "yr_compiler_define_string_variable", yr_compiler_define_string_variable(c, "ext_s", "hay needle hay"))) return;
  if (!sc_add(s, c, EXT_RULES)) return;
  YR_RULES* r = sc_get_rules(s, c); if (!r) return;
  if (!ST(s, "yr_rules_define_integer_variable", yr_rules_define_integer_variable(r, "ext_i", 7))) return;
  if (!ST(s, "yr_rules_define_string_variable", yr_rules_define_string_variable(r, "ext_s", "other needle"))) return;
  if (!ST(s, "yr_rules_define_float_variable", yr_rules_define_float_variable(r, "ext_f", 3.5))) return;
  YR_SCANNER* sc = NULL;
  if (!ST(s, "yr_scanner_create", yr_scanner_create(r, &sc))) return;
  s.scanners.push_back(sc);
  if (!ST(s, "yr_scanner_define_string_variable", yr_scanner_define_string_variable(sc, "ext_s", "third needle"))) return;
  if (!ST(s, "yr_scanner_define_integer_variable", yr_scanner_define_integer_variable(sc, "ext_i", 7))) return;
  if (!ST(s, "yr_scanner_define_boolean_variable", yr_scanner_define_boolean_variable(sc, "ext_b", 1))) return;
  Recorder rec; yr_scanner_set_callback(sc, recorder_callback, &rec);
  std::string buf = "0123456MARK....";
  s.pre(); int rc = yr_scanner_scan_mem(sc, (const uint8_t*) buf.data(), buf.size());
  if (!s.S("yr_scanner_scan_mem", rc, rec.text)) return;
  // a second scanner created after the string external was replaced at rules level
  YR_SCANNER* sc2 = NULL;
  if (!ST(s, "yr_scanner_create#2", yr_scanner_create(r, &sc2))) return;
  s.scanners.push_back(sc2);
  Recorder rec2; yr_scanner_set_callback(sc2, recorder_callback, &rec2);
  s.pre(); rc = yr_scanner_scan_mem(sc2, (const uint8_t*) buf.data(), buf.size());
  s.S("yr_scanner_scan_mem#2", rc, rec2.text);
}

// A scanner-level string definition that fails must change nothing: the scanner keeps answering with the value it
// had (here the rule-set value), like a second scanner that was never asked to change it.
static void s_scanner_define_string(Sc& s) {
  if (!sc_init(s)) return; YR_COMPILER* c = sc_compiler(s); if (!c) return;
  if (!ST(s, "yr_compiler_define_string_variable", yr_compiler_define_string_variable(c, "ext_s", "hay needle hay"))) return;
  if (!ST(s, "yr_compiler_define_integer_variable", yr_compiler_define_integer_variable(c, "ext_i", 7))) return;
  if (!sc_add(s, c, "rule x_str { condition: ext_s contains \"needle\" }\nrule x_other { condition: ext_s contains \"other\" }\nrule x_def { condition: defined ext_s and ext_i == 7 }\n")) return;
  YR_RULES* r = sc_get_rules(s, c); if (!r) return;
  YR_SCANNER* sc = NULL; if (!ST(s, "yr_scanner_create", yr_scanner_create(r, &sc))) return; s.scanners.push_back(sc);
  static bool define_failed; define_failed = false;
  s.probe = [sc, r]() -> std::string {
    if (!define_failed) return "";
    std::string buf = "some data";
    Recorder a; yr_scanner_set_callback(sc, recorder_callback, &a); int rc1 = yr_scanner_scan_mem(sc, (const uint8_t*) buf.data(), buf.size());
    YR_SCANNER* fresh = NULL; if (yr_scanner_create(r, &fresh) != ERROR_SUCCESS) return "harness: scanner_create";
    Recorder b; yr_scanner_set_callback(fresh, recorder_callback, &b); int rc2 = yr_scanner_scan_mem(fresh, (const uint8_t*) buf.data(), buf.size()); yr_scanner_destroy(fresh);
    if (rc1 != rc2 || a.text != b.text) return "failed-define-changed-the-variable: scanner now reports '" + a.text.substr(0, 120) + "', one that was never redefined '" + b.text.substr(0, 120) + "'";
    return "";
  };
  s.arm();
  s.pre(); int rc = yr_scanner_define_string_variable(sc, "ext_s", "this is the other value, long enough to need its own block");
  if (rc != ERROR_SUCCESS) define_failed = true;
  if (!s.S("yr_scanner_define_string_variable", rc)) return;
  Recorder rec; yr_scanner_set_callback(sc, recorder_callback, &rec); std::string buf = "some data";
  s.pre(); rc = yr_scanner_scan_mem(sc, (const uint8_t*) buf.data(), buf.size());
  s.S("yr_scanner_scan_mem", rc, rec.text);
}

static void s_save_load_stream(Sc& s) {
  if (!sc_init(s)) return;
  YR_RULES* r = sc_compile(s, frags_src({"text", "hexchain", "regreedy", "count", "forin", "tests", "hash"})); if (!r) return;
  std::string buf = frags_plants({"text", "hexchain", "regreedy", "count", "forin"});
  // a save that fails must leave the rules usable: scanned again (faults off) they report what they reported before
  static std::string before; { Recorder rec0; yr_rules_scan_mem(r, (const uint8_t*) buf.data(), buf.size(), 0, recorder_callback, &rec0, 0); before = rec0.text; }
  static bool save_failed; save_failed = false;
  s.probe = [r, buf]() -> std::string { if (!save_failed) return ""; Recorder rec1; int rc1 = yr_rules_scan_mem(r, (const uint8_t*) buf.data(), buf.size(), 0, recorder_callback, &rec1, 0); if (rc1 != ERROR_SUCCESS || rec1.text != before) return "rules-unusable-after-failed-save: rc " + std::string(yr_error_name(rc1)); return ""; };
  s.arm();
  std::string image; int rc; s.pre(); save_rules(r, image, &rc);
  if (rc != ERROR_SUCCESS) save_failed = true;
  if (!s.S("yr_rules_save_stream", rc, image)) return;
  if (!sc_scan_mem(s, r, buf, "scan_original_after_save")) return;
  YR_RULES* l = NULL; s.pre(); rc = load_rules(image, &l);
  if (!s.S("yr_rules_load_stream", rc)) return;
  s.rules.push_back(l);
  sc_scan_mem(s, l, buf, "scan_loaded");
}
static void s_save_load_file(Sc& s) {
  if (!sc_init(s)) return;
  YR_RULES* r = sc_compile(s, frags_src({"text", "regreedy", "ofset", "math"})); if (!r) return;
  std::string fbuf = frags_plants({"text", "regreedy", "ofset"});
  static std::string fbefore; { Recorder rec0; yr_rules_scan_mem(r, (const uint8_t*) fbuf.data(), fbuf.size(), 0, recorder_callback, &rec0, 0); fbefore = rec0.text; }
  static bool fsave_failed; fsave_failed = false;
  s.probe = [r, fbuf]() -> std::string { if (!fsave_failed) return ""; Recorder rec1; int rc1 = yr_rules_scan_mem(r, (const uint8_t*) fbuf.data(), fbuf.size(), 0, recorder_callback, &rec1, 0); if (rc1 != ERROR_SUCCESS || rec1.text != fbefore) return "rules-unusable-after-failed-save: rc " + std::string(yr_error_name(rc1)); return ""; };
  s.arm();
  std::string path = tmp_dir() + "/c16.yarc";
  { s.pre(); int src = yr_rules_save(r, path.c_str()); if (src != ERROR_SUCCESS) fsave_failed = true; if (!s.S("yr_rules_save", src)) return; }
  YR_RULES* l = NULL;
  if (!ST(s, "yr_rules_load", yr_rules_load(path.c_str(), &l))) return;
  s.rules.push_back(l);
  sc_scan_mem(s, l, frags_plants({"text", "regreedy", "ofset"}), "scan_loaded");
}
static void s_scan_text(Sc& s) { scan_only(s, frags_src(STR_FRAGS) , frags_plants(STR_FRAGS) + frags_plants(STR_FRAGS)); }
static void s_scan_regex(Sc& s) { scan_only(s, frags_src(RE_FRAGS), frags_plants(RE_FRAGS) + std::string(300, 'r') + "reg12345exxxxxx lazy.end.end.end.end barbaz1 foobazqux2"); }
static void s_scan_cond(Sc& s) { scan_only(s, frags_src(COND_FRAGS), "HEAD" + frags_plants(COND_FRAGS)); }
static void s_scan_many_matches(Sc& s) {
  std::string buf; for (int i = 0; i < 3000; i++) buf += "ab";
  scan_only(s, "rule many { strings: $a = \"ab\" $b = /b?a/ $c = { 62 61 } condition: #a > 10 and #b > 10 and #c > 10 }", buf);
}
static void s_scan_pe(Sc& s) { scan_only(s, frags_src({"pe", "pefunc", "perich", "entryp", "uints"}), corpus_file(PE_TINY)); }
static void s_scan_pe_signed(Sc& s) { scan_only(s, frags_src({"pesig", "pe"}), corpus_file(PE_SIGNED)); }
static void s_scan_elf(Sc& s) { scan_only(s, frags_src({"elf", "elfsec", "entryp"}), corpus_file(ELF_S)); }
static void s_scan_dotnet(Sc& s) { scan_only(s, frags_src({"dotnet"}), corpus_file(DOTNET_S)); }
static void s_scan_macho(Sc& s) { scan_only(s, frags_src({"macho"}), corpus_file(MACHO_S)); }
static void s_scan_dex(Sc& s) { scan_only(s, frags_src({"dex"}), corpus_file(DEX_S)); }
static void s_scan_small_mods(Sc& s) { scan_only(s, frags_src({"math", "hash", "hashtwice", "string", "time", "console", "tests", "testsdata", "testsiter"}), "some text for the small modules 0123456789"); }
static void s_scan_entry_points(Sc& s) {
  if (!sc_init(s)) return;
  YR_RULES* r = sc_compile(s, frags_src({"text", "regreedy", "count", "filesize", "hash"})); if (!r) return;
  std::string buf = frags_plants({"text", "regreedy", "count"}) + std::string(5000, '.');
  std::string path = tmp_dir() + "/c16.scan";
  write_file(path, buf);
  s.arm();
  { Recorder rec; s.pre(); int rc = yr_rules_scan_file(r, path.c_str(), 0, recorder_callback, &rec, 0); if (!s.S("yr_rules_scan_file", rc, rec.text)) return; }
  { int fd = open(path.c_str(), O_RDONLY); Recorder rec; s.pre(); int rc = yr_rules_scan_fd(r, fd, 0, recorder_callback, &rec, 0); close(fd); if (!s.S("yr_rules_scan_fd", rc, rec.text)) return; }
  { BlockIter bi; bi.init(buf.data(), buf.size(), {{0, 2000}, {2000, 2000}, {4000, buf.size() - 4000}}); Recorder rec; s.pre();
    int rc = yr_rules_scan_mem_blocks(r, &bi.it, 0, recorder_callback, &rec, 0); if (!s.S("yr_rules_scan_mem_blocks", rc, rec.text)) return; }
  YR_SCANNER* sc = NULL;
  if (!ST(s, "yr_scanner_create", yr_scanner_create(r, &sc))) return;
  s.scanners.push_back(sc);
  Recorder rec; yr_scanner_set_callback(sc, recorder_callback, &rec);
  s.pre(); int rc = yr_scanner_scan_file(sc, path.c_str()); if (!s.S("yr_scanner_scan_file", rc, rec.text)) return;
  rec.clear(); s.pre(); rc = yr_scanner_scan_mem(sc, (const uint8_t*) buf.data(), buf.size()); s.S("yr_scanner_scan_mem#reuse", rc, rec.text);
}
static void s_matches_operator(Sc& s) {
  s.arm(); if (!sc_init(s)) return; YR_COMPILER* c = sc_compiler(s); if (!c) return;
  if (!ST(s, "yr_compiler_define_string_variable", yr_compiler_define_string_variable(c, "ext_s", "xaaaaaaab-aaaaab!"))) return;
  if (!sc_add(s, c, "rule m { condition: ext_s matches /aaab!/ and ext_s matches /(a|b){2,6}-a+b/ }")) return;
  YR_RULES* r = sc_get_rules(s, c); if (!r) return;
  YR_SCANNER* sc = NULL;
  if (!ST(s, "yr_scanner_create", yr_scanner_create(r, &sc))) return;
  s.scanners.push_back(sc);
  std::string buf = "irrelevant";
  for (int round = 0; round < 2; round++) {
    if (!ST(s, round ? "yr_scanner_define_string_variable#2" : "yr_scanner_define_string_variable", yr_scanner_define_string_variable(sc, "ext_s", round ? "bbaaaab-aab! xaaaaaaab-aaaaab!" : "xaaaaaaab-aaaaab! and more"))) return;
    Recorder rec; yr_scanner_set_callback(sc, recorder_callback, &rec);
    s.pre(); int rc = yr_scanner_scan_mem(sc, (const uint8_t*) buf.data(), buf.size());
    if (!s.S(round ? "yr_scanner_scan_mem#2" : "yr_scanner_scan_mem", rc, rec.text)) return;
  }
}
static int g_sleeper = 0;
// a scanner must come out of a failed scan in the state a fresh scanner is in
static std::string scanner_vs_fresh(YR_SCANNER* sc, YR_RULES* r, const std::string& buf) {
  Recorder a, b; yr_scanner_set_callback(sc, recorder_callback, &a); yr_scanner_set_timeout(sc, 0);
  int rca = yr_scanner_scan_mem(sc, (const uint8_t*) buf.data(), buf.size());
  YR_SCANNER* f = NULL; if (yr_scanner_create(r, &f) != ERROR_SUCCESS) return "";
  yr_scanner_set_callback(f, recorder_callback, &b); int rcb = yr_scanner_scan_mem(f, (const uint8_t*) buf.data(), buf.size()); yr_scanner_destroy(f);
  if (rca != rcb) return std::string("scanner-differs-from-fresh: rc ") + yr_error_name(rca) + " vs " + yr_error_name(rcb);
  if (a.text != b.text) return "scanner-differs-from-fresh: trace differs";
  return "";
}
static void s_scan_proc_then_file(Sc& s) {
  if (!sc_init(s)) return;
  YR_RULES* r = sc_compile(s, frags_src({"elf", "entryp", "text"}) + "rule ep_low { condition: entrypoint < 100000 }\nrule elf_dyn { condition: elf.type == elf.ET_DYN }\n"); if (!r) return;
  YR_SCANNER* sc = NULL; if (!ST(s, "yr_scanner_create", yr_scanner_create(r, &sc))) return;
  s.scanners.push_back(sc);
  s.probe = [sc, r] { return scanner_vs_fresh(sc, r, corpus_file(ELF_S)); };
  s.arm();
  Recorder rec; yr_scanner_set_callback(sc, recorder_callback, &rec); rec.with_module_tree = false; rec.with_match_data = false;
  s.pre(); int rc = yr_scanner_scan_proc(sc, g_sleeper);
  // what a sleeping process's memory matches is not part of the comparison, only the outcome of the call
  s.S("yr_scanner_scan_proc", rc, "");
}
static void s_scanner_reuse_after_failure(Sc& s) {
  if (!sc_init(s)) return;
  YR_RULES* r = sc_compile(s, frags_src({"text", "regreedy", "count", "hash", "tests", "pe", "entryp"})); if (!r) return;
  YR_SCANNER* sc = NULL; if (!ST(s, "yr_scanner_create", yr_scanner_create(r, &sc))) return;
  s.scanners.push_back(sc);
  std::string text = frags_plants({"text", "regreedy", "count"});
  s.probe = [sc, r, text] { std::string p = scanner_vs_fresh(sc, r, text); return p.empty() ? scanner_vs_fresh(sc, r, corpus_file(ELF_S)) : p; };
  s.arm();
  { Recorder rec; yr_scanner_set_callback(sc, recorder_callback, &rec); s.pre(); int rc = yr_scanner_scan_mem(sc, (const uint8_t*) corpus_file(PE_TINY).data(), corpus_file(PE_TINY).size()); if (!s.S("yr_scanner_scan_mem", rc, rec.text)) return; }
}
static void s_stats_profiling(Sc& s) {
  if (!sc_init(s)) return;
  YR_RULES* r = sc_compile(s, frags_src({"text", "hexjump", "regreedy"})); if (!r) return;
  s.arm();
  YR_RULES_STATS st; memset(&st, 0, sizeof st);
  s.pre(); int rc = yr_rules_get_stats(r, &st);
  char b[128]; snprintf(b, sizeof b, "rules=%u strings=%u ac_matches=%u", st.num_rules, st.num_strings, st.ac_matches);
  if (!s.S("yr_rules_get_stats", rc, b)) return;
  YR_SCANNER* sc = NULL;
  if (!ST(s, "yr_scanner_create", yr_scanner_create(r, &sc))) return;
  s.scanners.push_back(sc);
  Recorder rec; yr_scanner_set_callback(sc, recorder_callback, &rec);
  std::string buf = frags_plants({"text", "hexjump", "regreedy"});
  s.pre(); rc = yr_scanner_scan_mem(sc, (const uint8_t*) buf.data(), buf.size()); if (!s.S("yr_scanner_scan_mem", rc, rec.text)) return;
  YR_RULE_PROFILING_INFO* pi = yr_scanner_get_profiling_info(sc);
  if (pi) s.yr_blocks.push_back(pi);
}

static const Scenario SCENARIOS[] = {
  {"init_fini", s_init_fini}, {"compile_strings", s_compile_strings}, {"compile_regex", s_compile_regex}, {"compile_cond", s_compile_cond}, {"compile_strings_tiny_arena", s_compile_strings_tiny}, {"compile_regex_tiny_arena", s_compile_regex_tiny}, {"compile_cond_tiny_arena", s_compile_cond_tiny}, {"compile_tiny_arena_16", s_tiny_sweep<16>}, {"compile_tiny_arena_24", s_tiny_sweep<24>}, {"compile_tiny_arena_32", s_tiny_sweep<32>}, {"compile_tiny_arena_40", s_tiny_sweep<40>}, {"compile_tiny_arena_48", s_tiny_sweep<48>}, {"compile_tiny_arena_56", s_tiny_sweep<56>}, {"compile_tiny_arena_64", s_tiny_sweep<64>}, {"compile_tiny_arena_72", s_tiny_sweep<72>}, {"compile_tiny_arena_80", s_tiny_sweep<80>}, {"compile_tiny_arena_88", s_tiny_sweep<88>}, {"compile_tiny_arena_96", s_tiny_sweep<96>}, {"compile_tiny_arena_104", s_tiny_sweep<104>}, {"compile_tiny_arena_112", s_tiny_sweep<112>}, {"compile_tiny_arena_120", s_tiny_sweep<120>}, {"compile_tiny_arena_128", s_tiny_sweep<128>}, {"compile_tiny_arena_136", s_tiny_sweep<136>},
  {"compile_pe", s_compile_pe}, {"compile_elf", s_compile_elf}, {"compile_dotnet", s_compile_dotnet}, {"compile_macho", s_compile_macho},
  {"compile_dex", s_compile_dex}, {"compile_small_mods", s_compile_small_mods}, {"compile_error", s_compile_error},
  {"compile_namespaces", s_compile_namespaces}, {"compile_include", s_compile_include}, {"compile_files", s_compile_files}, {"externals", s_externals}, {"externals_retry", s_externals_retry}, {"scanner_define_string", s_scanner_define_string},
  {"save_load_stream", s_save_load_stream}, {"save_load_file", s_save_load_file},
  {"scan_text", s_scan_text}, {"scan_regex", s_scan_regex}, {"scan_cond", s_scan_cond}, {"scan_many_matches", s_scan_many_matches},
  {"scan_pe", s_scan_pe}, {"scan_pe_signed", s_scan_pe_signed}, {"scan_elf", s_scan_elf}, {"scan_dotnet", s_scan_dotnet},
  {"scan_macho", s_scan_macho}, {"scan_dex", s_scan_dex}, {"scan_small_mods", s_scan_small_mods},
  {"scan_entry_points", s_scan_entry_points}, {"stats_profiling", s_stats_profiling}, {"matches_operator", s_matches_operator}, {"scan_proc_then_file", s_scan_proc_then_file}, {"scanner_reuse_after_failure", s_scanner_reuse_after_failure},
};
static const int NSCEN = sizeof(SCENARIOS) / sizeof(SCENARIOS[0]);

// ------------------------------------------------------------------ a run ---
static void on_first_fail() { iso_emit("F " + sim_bt_chain(g_alloc.fail_bt, 1, 3) + "\n"); }

struct RunOut { bool ok = false; IsoResult iso; std::string fail_chain; J res; };

static std::string followup() {
  // the library must be usable again, with faults off
  sim_alloc_reset();
  if (yr_initialize() != ERROR_SUCCESS) return "yr_initialize failed";
  std::string out = "ok";
  YR_COMPILER* c = NULL;
  if (yr_compiler_create(&c) != ERROR_SUCCESS) out = "compiler_create failed";
  else {
    if (yr_compiler_add_string(c, "import \"tests\"\nrule follow { strings: $a = \"follow\" condition: $a and tests.isum(1,1) == 2 }", NULL) != 0) out = "follow-up compile failed";
    else {
      YR_RULES* r = NULL;
      if (yr_compiler_get_rules(c, &r) != ERROR_SUCCESS) out = "follow-up get_rules failed";
      else {
        Recorder rec; std::string buf = "xx follow xx";
        int rc = yr_rules_scan_mem(r, (const uint8_t*) buf.data(), buf.size(), 0, recorder_callback, &rec, 0);
        if (rc != ERROR_SUCCESS) out = std::string("follow-up scan rc=") + yr_error_name(rc);
        else if (rec.text.find("MATCH default:follow") == std::string::npos) out = "follow-up scan did not match";
        yr_rules_destroy(r);
      }
    }
    yr_compiler_destroy(c);
  }
  if (yr_finalize() != ERROR_SUCCESS) out = "follow-up finalize failed";
  return out;
}

static RunOut run_case(int scen, int64_t k, bool from) {
  RunOut o;
  o.iso = sim_isolate([&] {
    sim_alloc_reset(); sim_alloc_forget_all(); sim_clock_reset();
    g_alloc.on_first_fail = on_first_fail;
    g_alloc.cur_op = 1;
    Sc s; s.plan_k = k; s.plan_from = from;
    int fds0 = g_fs.open_fds, maps0 = g_fs.live_maps;
    SCENARIOS[scen].fn(s);
    int64_t attempts = s.armed ? g_alloc.attempts : 0;
    int64_t failed = g_alloc.failed;
    g_alloc.fail_at = -1; g_alloc.fail_from = false;
    std::string probe_out = s.probe ? s.probe() : std::string();
    s.finish();
    J res = J::obj();
    J st = J::arr();
    for (auto& x : s.steps) { J e = J::obj(); e.set("n", x.name); e.set("rc", x.rc); char hb[20]; snprintf(hb, sizeof hb, "%016llx", (unsigned long long) x.out); e.set("h", hb); e.set("f", x.faulted); e.set("k", std::string(1, x.kind)); st.push(e); }
    res.set("steps", st); res.set("attempts", attempts); res.set("failed", failed); res.set("probe", probe_out);
    J leaks = J::arr(); std::map<std::string, std::pair<int, size_t>> agg;
    for (auto& r : sim_alloc_live()) { auto& a = agg[sim_bt_chain(r.bt, 1, 3)]; a.first++; a.second += r.size; }
    for (auto& kv : agg) { J e = J::obj(); e.set("chain", kv.first); e.set("n", kv.second.first); e.set("bytes", kv.second.second); leaks.push(e); }
    res.set("leaks", leaks);
    // nothing yara opened or mapped (include files, scanned files) may outlive the objects of the scenario
    res.set("fd_leak", (int64_t) (g_fs.open_fds - fds0)); res.set("map_leak", (int64_t) (g_fs.live_maps - maps0));
    sim_alloc_forget_all();
    res.set("followup", followup());
    res.set("followup_live", (int64_t) sim_alloc_live_count());
    iso_emit("R " + res.dump() + "\n");
  }, 60);
  size_t p = 0; const std::string& t = o.iso.out;
  while (p < t.size()) {
    size_t e = t.find('\n', p); if (e == std::string::npos) e = t.size();
    if (t.compare(p, 2, "F ") == 0) o.fail_chain = t.substr(p + 2, e - p - 2);
    else if (t.compare(p, 2, "R ") == 0) o.ok = J::parse(t.substr(p + 2, e - p - 2), o.res);
    p = e + 1;
  }
  return o;
}

struct Viol { std::string klass, sig, detail; };

static std::vector<Viol> judge(const RunOut& base, const RunOut& o) {
  std::vector<Viol> v;
  std::string fc = o.fail_chain.empty() ? "none" : o.fail_chain;
  if (!o.ok) {
    std::string cs = sim_crash_signature(o.iso);
    v.push_back({o.iso.kind == 3 ? "hang" : "crash", std::string(o.iso.kind == 3 ? "hang" : "crash") + "|" + cs + "|fail@" + fc, o.iso.err.substr(0, 3000)});
    return v;
  }
  const J& bs = base.res["steps"]; const J& os = o.res["steps"];
  bool saw_fault = false;
  for (size_t i = 0; i < os.size(); i++) {
    const J& x = os[i];
    bool have_base = i < bs.size();
    bool same = have_base && bs[i]["n"].str() == x["n"].str() && bs[i]["rc"].str() == x["rc"].str() && bs[i]["h"].str() == x["h"].str();
    bool faulted = x["f"].truthy();
    if (faulted) saw_fault = true;
    if (same) continue;
    std::string rc = x["rc"].str(), name = x["n"].str();
    bool is_last = i + 1 == os.size();
    if (!saw_fault) { v.push_back({"harness-nondeterminism", "nondet|step=" + name, "step differs from baseline before any fault was injected: " + x.dump()}); break; }
    bool acceptable_err = x["k"].str() == "C" ? rc == "errors" : rc == "INSUFFICIENT_MEMORY";
    if (acceptable_err && is_last) break;     // reported, as the property asks
    bool base_rc_same = have_base && bs[i]["n"].str() == name && bs[i]["rc"].str() == rc;
    if (base_rc_same) v.push_back({"silent-wrong-result", "silent|step=" + name + "|fail@" + fc, "call returned " + rc + " like the fault-free run but its output differs"});
    else v.push_back({"wrong-code", "wrong-code|step=" + name + "|rc=" + rc + "|fail@" + fc, "call returned " + rc + " after an injected allocation failure"});
    break;
  }
  if (v.empty() && os.size() < bs.size()) {
    // stopped early: fine if the last step reported an acceptable error, checked above; otherwise flag
    const J& last = os[os.size() - 1];
    std::string rc = last["rc"].str();
    bool acceptable_err = last["k"].str() == "C" ? rc == "errors" : rc == "INSUFFICIENT_MEMORY";
    if (!(acceptable_err)) v.push_back({"wrong-code", "wrong-code|step=" + last["n"].str() + "|rc=" + rc + "|fail@" + fc, "scenario stopped early without an acceptable error"});
  }
  for (size_t i = 0; i < o.res["leaks"].size(); i++) {
    const J& l = o.res["leaks"][i];
    v.push_back({"leak", "leak|fail@" + fc + "|leaked@" + l["chain"].str(), std::to_string(l["n"].num()) + " block(s), " + std::to_string(l["bytes"].num()) + " bytes still allocated after destroy+finalize"});
  }
  if (o.res["fd_leak"].num() > 0 || o.res["map_leak"].num() > 0) v.push_back({"leak", "leak|fail@" + fc + "|descriptor-or-mapping", std::to_string(o.res["fd_leak"].num()) + " descriptor(s) and " + std::to_string(o.res["map_leak"].num()) + " mapping(s) opened by yara are still open after destroy+finalize"});
  if (!o.res["probe"].str().empty()) v.push_back({"unusable-after", "unusable|surviving-object|" + o.res["probe"].str().substr(0, o.res["probe"].str().find(':')) + "|fail@" + fc, "an object that survived the failed call no longer behaves like a fresh one: " + o.res["probe"].str()});
  if (o.res["followup"].str() != "ok") v.push_back({"unusable-after", "unusable|" + o.res["followup"].str() + "|fail@" + fc, "library not usable after the failure: " + o.res["followup"].str()});
  else if (o.res["followup_live"].num() != 0) v.push_back({"unusable-after", "unusable|followup-leak|fail@" + fc, "follow-up scenario leaked"});
  return v;
}

static J replay_of(int scen, int64_t k, bool from) { J r = J::obj(); r.set("engine", "sim_alloc"); r.set("scenario", SCENARIOS[scen].name); r.set("k", k); r.set("mode", from ? "B" : "A"); return r; }

int main(int argc, char** argv) {
  Args args(argc, argv);
  sim_symbolize((void*) &main);   // load symbols before any fork
  { int p = fork(); if (p == 0) { prctl(PR_SET_PDEATHSIG, SIGKILL); int dn = open("/dev/null", O_RDWR); for (int fd = 0; fd < 256; fd++) if (fd != dn) { if (fd <= 2) dup2(dn, fd); else close(fd); } execl("/bin/sleep", "sleep", "100000", (char*) NULL); _exit(127); } g_sleeper = p; usleep(30000); atexit([] { if (g_sleeper > 0) { kill(g_sleeper, SIGKILL); waitpid(g_sleeper, NULL, 0); } }); }
  std::string cmd = args.pos.empty() ? "run" : args.pos[0];
  if (cmd == "list") { for (int i = 0; i < NSCEN; i++) { RunOut b = run_case(i, -1, false); printf("%-22s N=%lld steps=%zu ok=%d\n", SCENARIOS[i].name, (long long) b.res["attempts"].num(), b.res["steps"].size(), b.ok); if (!b.ok) printf("%s\n", b.iso.err.substr(0, 2000).c_str()); } return 0; }
  if (cmd == "replay") {
    J rp; if (args.pos.size() < 2 || !J::load(args.pos[1], rp)) { fprintf(stderr, "cannot read replay\n"); return 2; }
    const J& c = rp.has("replay") ? rp["replay"] : rp;
    int scen = -1; for (int i = 0; i < NSCEN; i++) if (c["scenario"].str() == SCENARIOS[i].name) scen = i;
    if (scen < 0) { fprintf(stderr, "unknown scenario\n"); return 2; }
    RunOut base = run_case(scen, -1, false);
    RunOut o = run_case(scen, c["k"].num(), c["mode"].str() == "B");
    auto vs = judge(base, o);
    for (auto& v : vs) emit_violation("C16", v.klass, v.sig, v.detail, replay_of(scen, c["k"].num(), c["mode"].str() == "B"));
    if (args.has("verbose")) { printf("base: %s\nrun: %s\nerr: %s\n", base.res.dump().c_str(), o.res.dump().c_str(), o.iso.err.c_str()); }
    J done = J::obj(); done.set("t", "replayed"); done.set("violations", (int64_t) vs.size()); emit_line(done);
    return 0;
  }
  // ---- run
  Shard sh = parse_shard(args);
  bool thorough = args.get("tier", "quick") == "thorough";
  uint64_t seed = args.num("seed", 1);
  std::string only = args.get("scenario", "");
  Stats st; uint64_t item = 0;
  for (int sc = 0; sc < NSCEN; sc++) {
    if (!only.empty() && only != SCENARIOS[sc].name) continue;
    RunOut base = run_case(sc, -1, false);
    if (!base.ok) { emit_violation("C16", "crash", "baseline-crash|" + std::string(SCENARIOS[sc].name) + "|" + sim_crash_signature(base.iso), base.iso.err, replay_of(sc, -1, false)); continue; }
    if (base.res["leaks"].size() || base.res["followup"].str() != "ok") { emit_violation("C16", "leak", "baseline-leak|" + std::string(SCENARIOS[sc].name), base.res.dump(), replay_of(sc, -1, false)); continue; }
    int64_t N = base.res["attempts"].num();
    if (sh.w == 0) { st.c[std::string("N.") + SCENARIOS[sc].name] = N; st.c["scenarios"]++; }
    Rng rng(sim_run_seed(seed, sc));
    // selection of k
    bool all_a = thorough || N <= 1200;
    int64_t stride_b = thorough ? 1 : (N / 24 > 0 ? N / 24 : 1);
    int64_t off_b = thorough ? 0 : (int64_t) rng.below(stride_b);
    for (int mode = 0; mode < 2; mode++) {
      for (int64_t k = 1; k <= N; k++) {
        bool pick;
        if (mode == 0) pick = all_a || k <= 40 || rng.chance(1, 8);
        else pick = ((k - 1) % stride_b) == off_b;
        if (!pick) continue;
        if (!sh.mine(item++)) continue;
        RunOut o = run_case(sc, k, mode == 1);
        st.runs++; st.c[mode ? "runs.modeB" : "runs.modeA"]++;
        if (o.ok && o.res["failed"].num() > 0) { st.c["faults_fired.alloc_fail"] += o.res["failed"].num(); }
        // distinct non-trivial: the fault fired; identity = scenario, outcome shape, failing chain
        if (!o.fail_chain.empty()) { Hash64 h; h.add(SCENARIOS[sc].name); h.add(o.fail_chain); h.addu(mode); if (o.ok) { const J& ss = o.res["steps"]; h.addu(ss.size()); if (ss.size()) h.add(ss[ss.size() - 1]["rc"].str()); } else h.add("crash"); st.hash(h.h); }
        if (o.ok) { const J& ss = o.res["steps"]; if (ss.size()) { std::string rc = ss[ss.size() - 1]["rc"].str(); st.c["outcome." + rc]++; } }
        auto vs = judge(base, o);
        for (auto& v : vs) { emit_violation("C16", v.klass, v.sig, std::string(SCENARIOS[sc].name) + " k=" + std::to_string(k) + (mode ? " B: " : " A: ") + v.detail, replay_of(sc, k, mode == 1)); st.c["viol." + v.klass]++; }
        if (vs.empty()) st.c["clean"]++;
        if (st.samples.size() < 3 && o.ok && !o.fail_chain.empty()) { J s = J::obj(); s.set("scenario", SCENARIOS[sc].name); s.set("k", k); s.set("mode", mode ? "B" : "A"); s.set("failed_allocation", o.fail_chain); const J& ss = o.res["steps"]; s.set("last_step", ss.size() ? ss[ss.size() - 1] : J()); st.sample(s); }
      }
    }
    if (st.hashes.size() > 5000) st.flush(false);
  }
  st.c["exhaustive_mode_A"] = thorough ? 1 : 0;
  st.flush();
  return 0;
}
