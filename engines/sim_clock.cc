// C15 — limits give documented errors; timeouts are timely.
//   --mode time   (variant cov)  : the scanner's only clock is simulated; expiry at every
//                                   clock read j; check density measured in executed basic blocks
//   --mode limits (variant small): match-limit warnings negotiated through the callback
//                                   (bystander rules unaffected), and the boundary table
// DESIGN.md §5.C15.
#include "engine.h"
#include "rulelab.h"
#include <unistd.h>
#include <sys/stat.h>
extern "C" {
#include <yara/compiler.h>
}

// the scan-time trycatch bookkeeping is process-wide: a limit error must leave it as it found it
extern "C" int exception_handler_usecount __attribute__((weak));
#include <signal.h>
struct HandlerState { void* bus; void* segv; int usecount; };
static HandlerState handler_state() { struct sigaction b, s; sigaction(SIGBUS, NULL, &b); sigaction(SIGSEGV, NULL, &s); return {(void*) b.sa_sigaction, (void*) s.sa_sigaction, &exception_handler_usecount ? exception_handler_usecount : 0}; }
static std::string handler_diff(const HandlerState& a, const HandlerState& b) { if (a.bus != b.bus || a.segv != b.segv || a.usecount != b.usecount) return "exception-handler-state-not-restored"; return ""; }

// ------------------------------------------------------------ (a) timeouts ---
struct Work { const char* name; const char* kind; std::string rules; std::function<std::string(int)> buffer; std::function<std::string(int)> rules_at; };
// scale s = 0,1,2,3 -> sizes x1, x4, x16, x64

struct TimedOut { int rc = 0; std::string trace; int64_t reads = 0; uint64_t work = 0; uint64_t max_gap = 0; int64_t reads_after_expiry = 0; int msgs_after_expiry = 0; bool expired = false; };

static uint64_t g_last_bb, g_max_gap; static int64_t g_expired_at_read; static Recorder* g_rec; static int g_msgs_at_expiry; static int64_t g_timeout_ns, g_start_ns;
static TimedOut timed_scan(YR_RULES* rules, const std::string& buf, int timeout_s, int64_t jump_at_read, int64_t step_ns, YR_SCANNER* reuse = nullptr, int64_t phase_ns = 0) {
  TimedOut o; Recorder rec; g_rec = &rec;
  YR_SCANNER* sc = reuse; if (!sc) yr_scanner_create(rules, &sc);
  yr_scanner_set_callback(sc, recorder_callback, &rec); yr_scanner_set_timeout(sc, timeout_s);
  sim_clock_reset(); g_clock.now_ns += phase_ns; g_clock.step_ns = step_ns; g_clock.jump_at_read = jump_at_read; g_clock.jump_ns = (int64_t) (timeout_s + 1) * 1000000000LL;
  g_last_bb = g_bb_count; g_max_gap = 0; g_expired_at_read = -1; g_msgs_at_expiry = 0; g_timeout_ns = (int64_t) timeout_s * 1000000000LL; g_start_ns = -1;
  g_clock.on_read = [](int64_t r) {
    uint64_t now = g_bb_count; if (r > 1 && now - g_last_bb > g_max_gap) g_max_gap = now - g_last_bb; g_last_bb = now;
    if (g_start_ns < 0) g_start_ns = g_clock.now_ns;          // first read = stopwatch start
    else if (g_expired_at_read < 0 && g_clock.now_ns - g_start_ns > g_timeout_ns) { g_expired_at_read = r; g_msgs_at_expiry = g_rec->nmsgs; }
  };
  uint64_t w0 = g_bb_count;
  o.rc = yr_scanner_scan_mem(sc, (const uint8_t*) buf.data(), buf.size());
  o.work = g_bb_count - w0; o.reads = g_clock.reads; o.max_gap = g_max_gap; o.trace = rec.text;
  if (g_expired_at_read >= 0) { o.expired = true; o.reads_after_expiry = g_clock.reads - g_expired_at_read; for (int i = g_msgs_at_expiry; i < rec.nmsgs; i++) if (rec.kinds[i] == CALLBACK_MSG_RULE_MATCHING || rec.kinds[i] == CALLBACK_MSG_RULE_NOT_MATCHING || rec.kinds[i] == CALLBACK_MSG_SCAN_FINISHED) o.msgs_after_expiry++; }
  sim_clock_reset();
  if (!reuse) yr_scanner_destroy(sc);
  return o;
}

static std::string filler(size_t n, unsigned seed) { std::string s; s.reserve(n); Rng r(seed); static const char* a = "abcdefghijklmnop qrstuvwxyz0123456789\n"; while (s.size() < n) s += a[r.below(38)]; return s; }

static std::vector<Work> make_works() {
  std::vector<Work> w;
  // scan phase: data grows, rules fixed
  w.push_back({"scan-dense-atoms", "scan-phase|data", "rule a { strings: $a = \"abcd\" $b = /q[a-z]{2,8}7/ $c = { 61 62 ?? 64 } condition: any of them }", [](int s) { return filler(16384u << (2 * s), 3); }, nullptr});
  w.push_back({"scan-sparse-atoms", "scan-phase|data", "rule a { strings: $a = \"ZZZZ_never\" $b = \"YYYY_never\" wide condition: any of them }", [](int s) { return filler(16384u << (2 * s), 4); }, nullptr});
  // pure VM loops: bound grows, data fixed
  w.push_back({"vm-loop-flat", "vm-loop|bound", "", [](int) { return filler(2048, 5); }, [](int s) { return "rule l { condition: for all i in (0.." + std::to_string(500 << (2 * s)) + ") : ( i >= 0 ) }"; }});
  w.push_back({"vm-loop-nested4", "vm-loop|bound", "", [](int) { return filler(2048, 6); }, [](int s) { int n = 4 << s; std::string b = std::to_string(n); return "rule l { condition: for all i in (0.." + b + ") : ( for all j in (0.." + b + ") : ( for all k in (0.." + b + ") : ( for all m in (0.." + b + ") : ( i + j + k + m >= 0 ) ) ) ) }"; }});
  w.push_back({"vm-loop-for-of", "vm-loop|bound", "", [](int) { return filler(2048, 7); }, [](int s) { int n = 6 << (2 * s) > 900 ? 900 : 6 << (2 * s); std::string r = "rule l { strings:\n"; for (int i = 0; i < n; i++) r += "$s" + std::to_string(i) + " = \"never_" + std::to_string(i) + "_x\"\n"; return r + "condition: for all of them : ( # == 0 ) }"; }});
  w.push_back({"vm-loop-uint", "vm-loop|bound", "", [](int s) { return filler(6000u << (2 * s), 8); }, [](int) { return std::string("rule l { condition: for all i in (0..filesize-1) : ( uint8(i) != 0xfe ) }"); }});
  // module function in a loop: bound grows with data fixed; data grows with bound fixed
  w.push_back({"module-loop-bound", "module-loop|bound", "", [](int) { return filler(4096, 9); }, [](int s) { return "import \"math\"\nrule l { condition: for all i in (0.." + std::to_string(200 << (2 * s)) + ") : ( math.entropy(0, 64) >= 0.0 ) }"; }});
  w.push_back({"module-loop-data", "module-loop|data", "import \"math\"\nrule l { condition: for all i in (0..250) : ( math.entropy(0, filesize) >= 0.0 ) }", [](int s) { return filler(8192u << (2 * s), 10); }, nullptr});
  // pathological regex on growing data
  w.push_back({"regex-pathological", "scan-phase|data", "rule r { strings: $r = /a[a-z ]{1,200}z{3}/ condition: $r }", [](int s) { return std::string(4096u << (2 * s), 'a'); }, nullptr});
  return w;
}

static void emit_c15(const std::string& klass, const std::string& sig, const std::string& detail, const J& rp, std::set<std::string>& reported, Stats& st) { st.c["viol." + klass]++; if (reported.insert(sig).second) emit_violation("C15", klass, sig, detail, rp); }

static void run_time_work(const Work& w, int wi, bool thorough, uint64_t seed, Stats& st, std::set<std::string>& reported, int only_scale = -1, int64_t only_j = -2) {
  int nscales = thorough ? 4 : 3;
  std::vector<TimedOut> free_runs;
  for (int s = 0; s < nscales; s++) {
    std::string rules_src = w.rules_at ? w.rules_at(s) : w.rules; std::string buf = w.buffer(s);
    YR_RULES* rules = compile_simple(rules_src);
    J rp = J::obj(); rp.set("engine", "sim_clock"); rp.set("mode", "time"); rp.set("work", w.name); rp.set("scale", s);
    // zero timeout: no clock read at all
    TimedOut z = timed_scan(rules, buf, 0, -1, 0);
    st.runs++;
    if (z.reads > 1) {   // the stopwatch is started once per scan regardless
     J r2 = rp; r2.set("j", -1); emit_c15("clock-read-without-timeout", "time|reads-with-zero-timeout", std::string(w.name) + ": " + std::to_string(z.reads) + " clock reads although no timeout was set", r2, reported, st); }
    // fault-free run with a timeout that never expires (clock does not move)
    TimedOut f = timed_scan(rules, buf, 60, -1, 0);
    st.runs++; st.c["sim_time_ns"] += 0; free_runs.push_back(f);
    Hash64 h0; h0.add(w.name); h0.addu(s); h0.addu(0); st.hash(h0.h);
    if (f.rc != z.rc || f.trace != z.trace) { J r2 = rp; r2.set("j", -1); emit_c15("timeout-setting-changes-result", "time|result-differs-with-timeout-set", w.name, r2, reported, st); }
    // a clock that moves but stays short of the deadline must not produce a timeout, whatever the phase of the clock's
    // nanosecond field at the start (the elapsed-time arithmetic borrows across the second boundary)
    if (only_j < -1 && f.reads >= 2) {
      static const int64_t PH[] = {0, 300000000LL, 950000000LL, 999999000LL};
      for (int tmo : {1, 2}) for (int64_t ph : PH) {
        int64_t step = (int64_t) tmo * 800000000LL / f.reads; if (step < 1) step = 1;
        TimedOut n = timed_scan(rules, buf, tmo, -1, step, nullptr, ph);
        st.runs++; st.c["faults_fired.clock_advances_short_of_deadline"]++; st.c["sim_time_ns"] += step * n.reads;
        if (n.rc != f.rc || n.trace != f.trace) { J r2 = rp; r2.set("j", -1); emit_c15("timeout-early", std::string("time|") + w.kind + "|timeout-before-deadline|rc=" + yr_error_name(n.rc), std::string(w.name) + " scale " + std::to_string(s) + ": timeout " + std::to_string(tmo) + " s, the clock starts " + std::to_string(ph) + " ns into a second and advances by " + std::to_string(step * n.reads) + " ns in total: scan returned " + yr_error_name(n.rc), r2, reported, st); }
      }
    }
    // floor: one read per started 4096-byte stretch of data in the scan phase is what the property's "however large the data" needs at least asymptotically;
    // checked as scaling below rather than as a constant.
    // expiry at read j, for every j (exhaustive when few), sampled above
    int64_t R = f.reads;
    st.c["max.clock_reads_per_scan"] = std::max<int64_t>(st.c["max.clock_reads_per_scan"], R);
    std::vector<int64_t> js;
    int64_t cap = thorough ? 2000 : 160;
    if (only_j >= -1) { if (only_scale == s && only_j >= 0) js.push_back(only_j); }
    else if (R <= cap) { for (int64_t j = 2; j <= R; j++) js.push_back(j); st.c["scenarios_with_every_expiry_point"]++; }
    else { Rng rng(sim_run_seed(seed, wi * 10 + s)); js.push_back(2); js.push_back(R); for (int64_t k = 0; k < cap; k++) js.push_back(2 + (int64_t) rng.below(R - 1)); }
    if (only_scale >= 0 && only_scale != s) js.clear();
    for (int64_t j : js) {
      HandlerState hs0 = handler_state();
      TimedOut o = timed_scan(rules, buf, 60, j, 0);
      { std::string hd = handler_diff(hs0, handler_state()); if (!hd.empty()) { J r3 = rp; r3.set("j", j); emit_c15("unusable-after-timeout", std::string("time|") + w.kind + "|" + hd, std::string(w.name) + ": after a scan that timed out: " + hd, r3, reported, st); } }
      st.runs++; st.c["faults_fired.clock_jump_past_deadline"]++; st.c["sim_time_ns"] += 61LL * 1000000000LL;
      Hash64 h; h.add(w.name); h.addu(s); h.addu(j); st.hash(h.h);
      J r2 = rp; r2.set("j", j);
      std::string where = std::string(w.name) + " scale " + std::to_string(s) + ", clock jumps past the deadline at read " + std::to_string(j) + " of " + std::to_string(R) + ": ";
      if (!o.expired) { emit_c15("harness", "time|expiry-not-observed", where + "the jump was not observed by the stopwatch", r2, reported, st); continue; }
      if (o.rc != ERROR_SCAN_TIMEOUT) emit_c15("timeout-ignored", std::string("time|") + w.kind + "|expired-but-rc=" + yr_error_name(o.rc), where + "scan returned " + yr_error_name(o.rc) + " after " + std::to_string(o.reads_after_expiry) + " further clock reads", r2, reported, st);
      else if (o.reads_after_expiry > 1) emit_c15("timeout-late", std::string("time|") + w.kind + "|reads-after-expiry", where + std::to_string(o.reads_after_expiry) + " further clock reads before returning", r2, reported, st);
      if (o.msgs_after_expiry) emit_c15("timeout-ignored", std::string("time|") + w.kind + "|rule-messages-after-expiry", where + std::to_string(o.msgs_after_expiry) + " rule/finished messages delivered after expiry", r2, reported, st);
      if (o.rc == ERROR_SCAN_TIMEOUT) st.c[std::string("probe.timeout_observed.") + w.kind]++;
    }
    // after a timeout the same scanner scans again correctly
    if (only_j < -1 && R >= 2) {
      YR_SCANNER* sc = NULL; yr_scanner_create(rules, &sc);
      TimedOut t1 = timed_scan(rules, buf, 60, 2 + (R > 2 ? 1 : 0), 0, sc);
      TimedOut t2 = timed_scan(rules, buf, 60, -1, 0, sc);
      yr_scanner_destroy(sc); st.runs += 2;
      if (t1.rc == ERROR_SCAN_TIMEOUT && (t2.rc != f.rc || t2.trace != f.trace)) { J r2 = rp; r2.set("j", -1); emit_c15("unusable-after-timeout", std::string("time|") + w.kind + "|scan-after-timeout-differs", w.name, r2, reported, st); }
    }
    yr_rules_destroy(rules);
  }
  if (only_j >= -1) return;
  // scaling: total work must grow, the largest gap between two clock reads must not
  for (int s = 1; s < nscales; s++) {
    const TimedOut &a = free_runs[s - 1], &b = free_runs[s];
    st.c["scaling_pairs"]++;
    bool grew = b.work > a.work + a.work / 2;
    if (!grew) { st.c["probe.workload_did_not_grow"]++; continue; }
    uint64_t ga = std::max<uint64_t>(a.max_gap, 1), gb = b.max_gap;
    if (a.reads < 3) ga = a.work;            // no gap measurable at the small scale: the whole scan is one gap
    if (b.reads < 3) gb = b.work;
    J rp = J::obj(); rp.set("engine", "sim_clock"); rp.set("mode", "time"); rp.set("work", w.name); rp.set("scale", s); rp.set("j", -1);
    if (gb > ga * 2 + 2000) emit_c15("check-density", std::string("time|") + w.kind + "|gap-scales", std::string(w.name) + ": largest stretch of work without a clock read grew from " + std::to_string(ga) + " to " + std::to_string(gb) + " basic blocks when the workload grew from " + std::to_string(a.work) + " to " + std::to_string(b.work) + " (reads " + std::to_string(a.reads) + " -> " + std::to_string(b.reads) + ")", rp, reported, st);
    if (st.samples.size() < 4) { J x = J::obj(); x.set("work", w.name); x.set("scale", s); x.set("work_blocks", (int64_t) b.work); x.set("clock_reads", b.reads); x.set("max_gap_blocks", (int64_t) gb); x.set("prev_max_gap_blocks", (int64_t) ga); st.sample(x); }
  }
}

// ------------------------------------------------- (b) match-limit warnings ---
static void run_limit_case(uint64_t seed, int64_t i, Stats& st, std::set<std::string>& reported) {
  Rng rng(sim_run_seed(seed, 90000 + i));
  // bystander rules with strings, offender placed among them
  GenSet g = gen_ruleset(rng, 2 + (int) rng.below(5), [](const Frag& f) { return *f.strings && !*f.import; }, "b");
  int pos = (int) rng.below(g.rules.size() + 1);
  std::string pad; if (i % 3 == 0) { pad = "rule padding {\n  strings:\n"; for (int k = 0; k < 70; k++) pad += "    $p" + std::to_string(k) + " = \"pad_" + std::to_string(k) + "_x\"\n"; pad += "  condition:\n    any of them\n}\n"; }
  auto src_with = [&](bool offender) {
    std::string s = pad; size_t k = 0;
    for (auto& r : g.rules) { if ((int) k == pos && offender) s += "rule offender { strings: $o = \"ab\" $p = \"bab\" condition: #o > 0 and #p >= 0 }\n"; GenSet one; one.rules.push_back(r); s += one.source(); k++; }
    if (pos == (int) g.rules.size() && offender) s += "rule offender { strings: $o = \"ab\" $p = \"bab\" condition: #o > 0 and #p >= 0 }\n";
    return s;
  };
  std::string buf = gen_text_buffer(rng, g.plants(), 300); for (int k = 0; k < 300; k++) buf += "ab"; buf += " " + g.plants();
  YR_RULES* with = compile_simple(src_with(true)); YR_RULES* without = compile_simple(src_with(false));
  auto strip = [](const std::string& t) { std::string o; size_t p = 0; while (p < t.size()) { size_t e = t.find('\n', p); std::string l = t.substr(p, e - p + 1); p = e + 1; if (l.find("default:offender") != std::string::npos || l.rfind("TOO_MANY", 0) == 0) continue; o += l; } return o; };
  J rp = J::obj(); rp.set("engine", "sim_clock"); rp.set("mode", "limits"); rp.set("seed", (int64_t) seed); rp.set("case", i);
  Recorder ref; int rc0 = yr_rules_scan_mem(without, (const uint8_t*) buf.data(), buf.size(), 0, recorder_callback, &ref, 0);
  for (int reply : {CALLBACK_CONTINUE, CALLBACK_ABORT, CALLBACK_ERROR}) {
    Recorder rec; rec.too_many_reply = reply; HandlerState hs0 = handler_state();
    int64_t w0 = g_bb_count; (void) w0;
    int rc = yr_rules_scan_mem(with, (const uint8_t*) buf.data(), buf.size(), 0, recorder_callback, &rec, 0);
    st.runs++; st.c[reply == CALLBACK_CONTINUE ? "faults_fired.too_many_matches_continue" : "faults_fired.too_many_matches_abort_or_error"] += rec.too_many;
    Hash64 h; h.add("lim"); h.addu(i); h.addu(reply); st.hash(h.h);
    { std::string hd = handler_diff(hs0, handler_state()); if (!hd.empty()) emit_c15("unusable-after-limit", "limits|" + hd, "after a scan that hit the match limit (rc " + std::string(yr_error_name(rc)) + "): " + hd, rp, reported, st); }
    if (!rec.too_many) { st.c["probe.limit_not_reached"]++; continue; }
    std::string rn = reply == CALLBACK_CONTINUE ? "continue" : reply == CALLBACK_ABORT ? "abort" : "error";
    if (reply == CALLBACK_CONTINUE) {
      if (rc != rc0 || rc != ERROR_SUCCESS) emit_c15("limit-warning", "limits|continue|rc=" + std::string(yr_error_name(rc)), "reply CONTINUE to the too-many-matches warning but the scan returned " + std::string(yr_error_name(rc)), rp, reported, st);
      else if (strip(rec.text) != strip(ref.text)) emit_c15("limit-hit-changes-bystanders", "limits|continue|bystander-result-differs", "a string hitting the match limit changed the result of other rules", rp, reported, st);
      if (rec.too_many > 2) emit_c15("limit-warning", "limits|continue|warning-repeated", std::to_string(rec.too_many) + " too-many-matches warnings for 2 offending strings in one scan", rp, reported, st);
    } else {
      if (rc != ERROR_TOO_MANY_MATCHES) emit_c15("limit-warning", "limits|" + rn + "|rc=" + yr_error_name(rc), "reply " + rn + " to the warning: scan returned " + std::string(yr_error_name(rc)) + " instead of TOO_MANY_MATCHES", rp, reported, st);
    }
    // the muting lasts for this scan only: a second scan of a buffer with few matches sees the string again
  }
  { YR_SCANNER* sc = NULL; yr_scanner_create(with, &sc); Recorder r1; yr_scanner_set_callback(sc, recorder_callback, &r1); yr_scanner_scan_mem(sc, (const uint8_t*) buf.data(), buf.size());
    std::string small = "xx ab yy " + g.plants(); Recorder r2, r3; yr_scanner_set_callback(sc, recorder_callback, &r2); int rca = yr_scanner_scan_mem(sc, (const uint8_t*) small.data(), small.size()); yr_scanner_destroy(sc);
    int rcb = yr_rules_scan_mem(with, (const uint8_t*) small.data(), small.size(), 0, recorder_callback, &r3, 0); st.runs++;
    if (rca != rcb || r2.text != r3.text) emit_c15("limit-state-leaks", "limits|muted-string-stays-muted", "after a scan that hit the match limit, the next scan on the same scanner differs from a fresh one", rp, reported, st); }
  yr_rules_destroy(with); yr_rules_destroy(without);
}

// -------------------------------------------------------- (c) boundary table ---
struct Lim { const char* name; int L; std::function<void(int n, int& errors, int& last_error, int& scan_rc)> run; std::vector<int> expect_errors; };
static int compile_err(const std::string& src, int& last_error, YR_RULES** out = nullptr, const std::map<std::string, std::string>* inc = nullptr) {
  YR_COMPILER* c = NULL; yr_compiler_create(&c);
  static const std::map<std::string, std::string>* g_inc; g_inc = inc;
  if (inc) yr_compiler_set_include_callback(c, [](const char* name, const char*, const char*, void*) -> const char* { auto it = g_inc->find(name); return it == g_inc->end() ? NULL : strdup(it->second.c_str()); }, [](const char* p, void*) { free((void*) p); }, NULL);
  int n = yr_compiler_add_string(c, src.c_str(), NULL); last_error = c->last_error;
  if (!n && out) yr_compiler_get_rules(c, out);
  yr_compiler_destroy(c); return n;
}
static bool library_usable() {
  int le; YR_RULES* r = NULL; if (compile_err("rule u { strings: $a = \"usable\" condition: $a }", le, &r) || !r) return false;
  Recorder rec; std::string b = "is usable?"; int rc = yr_rules_scan_mem(r, (const uint8_t*) b.data(), b.size(), 0, recorder_callback, &rec, 0); yr_rules_destroy(r);
  return rc == ERROR_SUCCESS && rec.text.find("MATCH default:u") != std::string::npos;
}

// A scan-time limit hit on a scanner must not leave that scanner broken: hit the limit, then scan harmless data with
// the SAME scanner and compare with a fresh one.
static void run_scanner_after_limit(Stats& st, std::set<std::string>& reported) {
  struct L { const char* name; const char* rules; std::string bomb; std::string benign; uint32_t stack; };
  std::vector<L> ls = {
    {"re-fibers", "rule f { strings: $r = /([a-z0-9_-]{1,32}\\.?){1,16}@example\\.com/ $q = /x(a{1,3}){1,400}y/ condition: any of them }\nrule g { strings: $s = /be[a-z]+gn/ condition: $s }", "xx " + std::string(60, 'a') + "@example.com x" + std::string(3000, 'a') + "y", "a benign text short@example.com xaay", 0},
    {"stack-size", "rule s { condition: ((((((((((((((((((((1 + 1) + 1) + 1) + 1) + 1) + 1) + 1) + 1) + 1) + 1) + 1) + 1) + 1) + 1) + 1) + 1) + 1) + 1) + 1) + 1) > filesize or filesize > 3 }", "12", "a benign text", 24},
  };
  for (auto& l : ls) {
    if (l.stack) yr_set_configuration_uint32(YR_CONFIG_STACK_SIZE, l.stack);
    YR_RULES* r = compile_simple(l.rules);
    YR_SCANNER* sc = NULL; yr_scanner_create(r, &sc); HandlerState hs0 = handler_state();
    Recorder r1; yr_scanner_set_callback(sc, recorder_callback, &r1); int rc1 = yr_scanner_scan_mem(sc, (const uint8_t*) l.bomb.data(), l.bomb.size());
    std::string hd = handler_diff(hs0, handler_state());
    Recorder r2; yr_scanner_set_callback(sc, recorder_callback, &r2); int rc2 = yr_scanner_scan_mem(sc, (const uint8_t*) l.benign.data(), l.benign.size());
    yr_scanner_destroy(sc);
    Recorder r3; int rc3 = yr_rules_scan_mem(r, (const uint8_t*) l.benign.data(), l.benign.size(), 0, recorder_callback, &r3, 0);
    yr_rules_destroy(r);
    if (l.stack) yr_set_configuration_uint32(YR_CONFIG_STACK_SIZE, 16384);
    st.runs += 3; st.c[std::string("scanner_after_limit.") + l.name]++; if (rc1 != ERROR_SUCCESS) st.c["faults_fired.limit_exceeded"]++;
    Hash64 h; h.add("after-limit"); h.add(l.name); st.hash(h.h);
    J rp = J::obj(); rp.set("engine", "sim_clock"); rp.set("mode", "limits"); rp.set("boundary", "@scanner-after-limit");
    if (rc1 == ERROR_SUCCESS) st.c["probe.scan_limit_not_reached"]++;
    if (!hd.empty()) emit_c15("unusable-after-limit", std::string("boundary|") + l.name + "|" + hd, std::string(l.name) + ": scan returned " + yr_error_name(rc1) + " and left the process-wide exception handler state changed: " + hd, rp, reported, st);
    if (rc2 != rc3 || r2.text != r3.text) emit_c15("unusable-after-limit", std::string("boundary|") + l.name + "|same-scanner-unusable-afterwards", std::string(l.name) + ": first scan returned " + yr_error_name(rc1) + "; the next scan of harmless data on the same scanner returned " + yr_error_name(rc2) + ", a fresh scanner " + yr_error_name(rc3), rp, reported, st);
  }
}

// Evaluation-stack boundary for every kind of loop: sweep the configured stack size across the point where the
// condition just fits; each size must give either the stack-overflow error or the right verdict, never a memory error.
static void run_stack_sweep(Stats& st, std::set<std::string>& reported) {
  const char* loops[] = {"for any i in (1..3) : ( i == 2 )", "for any e in tests.integer_array : ( e == 2 )", "for any k, v in tests.struct_dict : ( k == \"foo\" )", "for any k, v in tests.empty_struct_dict : ( k == \"foo\" )", "for any s in (\"a\", \"b\") : ( s == \"b\" )"};
  for (int li = 0; li < 5; li++) for (int depth : {0, 3, 7}) {
    std::string c = loops[li]; for (int d = 0; d < depth; d++) c = "true and (1 + 2 == 3 and (" + c + "))";
    int le = 0; YR_RULES* r = NULL;
    if (compile_err("import \"tests\"\nrule w { condition: " + c + " or filesize < 0 }", le, &r) || !r) { st.c["probe.stack_sweep_rule_did_not_compile"]++; continue; }
    bool seen_ok = false;
    for (uint32_t sz = 4; sz <= 40; sz++) {
      yr_set_configuration_uint32(YR_CONFIG_STACK_SIZE, sz);
      IsoResult iso = sim_isolate([&] { Recorder rec; std::string b = "x"; int rc = yr_rules_scan_mem(r, (const uint8_t*) b.data(), 1, 0, recorder_callback, &rec, 0); iso_emit(std::string(yr_error_name(rc)) + "\n"); }, 30);
      st.runs++; st.c["stack_sweep_points"]++; Hash64 h; h.add("stack"); h.addu(li); h.addu(depth); h.addu(sz); st.hash(h.h);
      std::string res = iso.out.substr(0, iso.out.find('\n'));
      J rp = J::obj(); rp.set("engine", "sim_clock"); rp.set("mode", "limits"); rp.set("boundary", "@stack-sweep");
      std::string at = "stack size " + std::to_string(sz) + ", loop kind " + std::to_string(li) + ", nesting " + std::to_string(depth) + ": ";
      if (iso.kind != 0) emit_c15("limit-memory-error", "boundary|stack-sweep|" + sim_crash_signature(iso).substr(0, 60), at + iso.err.substr(0, 1200), rp, reported, st);
      else if (res == "EXEC_STACK_OVERFLOW") { st.c["faults_fired.limit_exceeded"]++; if (seen_ok) emit_c15("limit-not-monotone", "boundary|stack-sweep|overflow-above-a-working-size", at + "overflow although a smaller stack sufficed", rp, reported, st); }
      else if (res == "SUCCESS") seen_ok = true;
      else emit_c15("limit-wrong-error", "boundary|stack-sweep|error=" + res, at + res, rp, reported, st);
    }
    yr_set_configuration_uint32(YR_CONFIG_STACK_SIZE, 16384);
    yr_rules_destroy(r);
  }
}


// The two "scanning is too slow" advisories (per block: the rule set's first string has between YR_SLOW_STRING_MATCHES
// and YR_MAX_STRING_MATCHES matches; per scan: an atom-less string and more than YR_FILE_SIZE_THRESHOLD bytes).
// CONTINUE must change nothing, any other reply must give ERROR_TOO_SLOW_SCANNING, and the scanner stays usable.
static void run_slow_warning(Stats& st, std::set<std::string>& reported) {
  J rp = J::obj(); rp.set("engine", "sim_clock"); rp.set("mode", "limits"); rp.set("boundary", "@slow-warning");
  const char* BY = "rule by1 { strings: $x = \"bystander\" condition: $x }\nrule by2 { strings: $y = /by[a-z]{3,9}er/ condition: #y == 1 }\nrule by3 { condition: filesize > 10 }\n";
  struct K { const char* name; std::string rules, rules_without; std::string buf; bool expect_warning; };
  std::vector<K> ks;
  for (int n : {YR_SLOW_STRING_MATCHES - 1, YR_SLOW_STRING_MATCHES, YR_SLOW_STRING_MATCHES + 7, YR_MAX_STRING_MATCHES - 1}) {
    std::string b = "a bystander "; for (int i = 0; i < n; i++) b += "ab";
    ks.push_back({"first-string-slow", std::string("rule first { strings: $s = \"ab\" condition: #s > 0 }\n") + BY, BY, b, n >= YR_SLOW_STRING_MATCHES});
  }
  for (size_t sz : {(size_t) YR_FILE_SIZE_THRESHOLD, (size_t) YR_FILE_SIZE_THRESHOLD + 1}) {
    std::string b(sz, 'q'); memcpy(&b[100], " a bystander ", 13);
    ks.push_back({"atomless-string-large-buffer", std::string("rule first { strings: $s = /[0-9]{4}[a-z]{2}/ $t = { ?? ?? 4? ?1 ?? } condition: #s >= 0 and #t >= 0 }\n") + BY, BY, b, sz > YR_FILE_SIZE_THRESHOLD});
  }
  auto strip = [](const std::string& t) { std::string o; size_t p = 0; while (p < t.size()) { size_t e = t.find('\n', p); std::string l = t.substr(p, e - p + 1); p = e + 1; if (l.find("default:first") != std::string::npos) continue; o += l; } return o; };
  for (auto& k : ks) {
    YR_RULES* with = compile_simple(k.rules); YR_RULES* without = compile_simple(k.rules_without);
    if (!with || !without) { emit_c15("harness", "limits|slow-warning|rules-do-not-compile", k.name, rp, reported, st); continue; }
    Recorder ref; int rc0 = yr_rules_scan_mem(without, (const uint8_t*) k.buf.data(), k.buf.size(), 0, recorder_callback, &ref, 0);
    for (int reply : {CALLBACK_CONTINUE, CALLBACK_ABORT, CALLBACK_ERROR}) {
      std::string rn = reply == CALLBACK_CONTINUE ? "continue" : reply == CALLBACK_ABORT ? "abort" : "error";
      YR_SCANNER* sc = NULL; yr_scanner_create(with, &sc);
      Recorder rec; rec.too_slow_reply = reply; yr_scanner_set_callback(sc, recorder_callback, &rec);
      HandlerState hs0 = handler_state();
      int rc = yr_scanner_scan_mem(sc, (const uint8_t*) k.buf.data(), k.buf.size());
      st.runs++; Hash64 h; h.add("slow"); h.add(k.name); h.addu(k.buf.size()); h.addu(reply); st.hash(h.h);
      std::string at = std::string(k.name) + ", " + std::to_string(k.buf.size()) + " bytes, reply " + rn + ": ";
      { std::string hd = handler_diff(hs0, handler_state()); if (!hd.empty()) emit_c15("unusable-after-limit", "limits|slow-warning|" + hd, at + hd, rp, reported, st); }
      // when exactly the advisory fires is not specified (it depends on which automaton states are visited after the
      // count is reached): its presence is counted, not asserted
      st.c[std::string("probe.slow_warning.") + k.name + (rec.too_slow ? ".fired" : ".silent")]++; (void) k.expect_warning;
      if (rec.too_slow) st.c["faults_fired.too_slow_warning_" + rn] += rec.too_slow;
      if (!rec.too_slow || reply == CALLBACK_CONTINUE) {
        if (rc != rc0 || rc != ERROR_SUCCESS) emit_c15("limit-warning", "limits|slow-warning|continue|rc=" + std::string(yr_error_name(rc)), at + "scan returned " + yr_error_name(rc), rp, reported, st);
        else if (strip(rec.text) != strip(ref.text)) emit_c15("limit-hit-changes-bystanders", "limits|slow-warning|bystander-result-differs", at + "the other rules' results differ from a scan without the slow string", rp, reported, st);
      } else if (rc != ERROR_TOO_SLOW_SCANNING) emit_c15("limit-warning", "limits|slow-warning|" + rn + "|rc=" + yr_error_name(rc), at + "scan returned " + std::string(yr_error_name(rc)) + " instead of TOO_SLOW_SCANNING", rp, reported, st);
      // the same scanner afterwards against a fresh one
      std::string small = "xx ab yy a bystander"; Recorder r2, r3; yr_scanner_set_callback(sc, recorder_callback, &r2); int rca = yr_scanner_scan_mem(sc, (const uint8_t*) small.data(), small.size()); yr_scanner_destroy(sc);
      int rcb = yr_rules_scan_mem(with, (const uint8_t*) small.data(), small.size(), 0, recorder_callback, &r3, 0); st.runs++;
      if (rca != rcb || r2.text != r3.text) emit_c15("limit-state-leaks", "limits|slow-warning|next-scan-differs", at + "the next scan on the same scanner differs from a fresh one", rp, reported, st);
    }
    yr_rules_destroy(with); yr_rules_destroy(without);
  }
}


// Regexp code size far beyond the limit, where 16-bit jump distances wrap: the skipped side of an alternation grows
// from a few hundred bytes to about four times the 32 KiB a forward jump can span.  Once a size is rejected every
// larger one must be rejected too, and an accepted regexp must scan without dying.
static void run_regex_jump_sweep(Stats& st, std::set<std::string>& reported) {
  J rp = J::obj(); rp.set("engine", "sim_clock"); rp.set("mode", "limits"); rp.set("boundary", "@regex-jump-sweep");
  static const char* SHAPES[] = {"abcdef(x|(((%s){3}){3}){3})yz", "abcdef((((%s){3}){3}){3})?yz", "abcdef(((%s){3}){3}){1,3}yz", "abcdef((((%s){3}){3}){3})*yz"};
  for (int shape = 0; shape < 4; shape++) {
    int first_reject = -1;
    for (int k = 1; k <= 150; k += (k < 30 ? 7 : 1)) {
      std::string cls; for (int c = 0; c < k; c++) cls += "[ab]";     // k literal copies: {k} would be compiled as a counted loop, not unrolled
      std::string res = SHAPES[shape]; res.replace(res.find("%s"), 2, cls); const char* re = res.c_str();
      int le = 0; YR_RULES* r = NULL; int e = compile_err(std::string("rule x { strings: $r = /") + re + "/ condition: $r }", le, &r);
      st.runs++; st.c["boundary.regex-jump-sweep"]++; Hash64 h; h.add("rjs"); h.addu(shape); h.addu(k); st.hash(h.h);
      std::string at = std::string("/") + std::string(re).substr(0, 80) + (strlen(re) > 80 ? "..." : "") + "/ (" + std::to_string(k) + " classes): ";
      if (e) {
        st.c["faults_fired.limit_exceeded"]++; if (first_reject < 0) first_reject = k;
        if (le != ERROR_REGULAR_EXPRESSION_TOO_LARGE && le != ERROR_REGULAR_EXPRESSION_TOO_COMPLEX) emit_c15("limit-wrong-error", std::string("boundary|regex-jump-sweep|error=") + yr_error_name(le), at + "rejected with " + yr_error_name(le), rp, reported, st);
      } else {
        if (first_reject >= 0) emit_c15("limit-not-monotone", "boundary|regex-jump-sweep|accepted-above-a-rejected-size", at.substr(0, 60) + "... (" + std::to_string(k) + " classes) accepted although the same shape with " + std::to_string(first_reject) + " classes was rejected as too large", rp, reported, st);
        // an accepted regexp must be usable: scan data that reaches the alternation
        std::string b = "zz abcdefxyz abcdef" + std::string(k * 27, 'a') + "yz abcdefyz";
        IsoResult iso = sim_isolate([&] { Recorder rec; int rc = yr_rules_scan_mem(r, (const uint8_t*) b.data(), b.size(), 0, recorder_callback, &rec, 0); iso_emit(yr_error_name(rc)); }, 120);
        if (iso.kind != 0) emit_c15("limit-memory-error", "boundary|regex-jump-sweep|accepted-regexp-dies-when-scanned|" + sim_crash_signature(iso).substr(0, 50), at + iso.err.substr(0, 800), rp, reported, st);
      }
      if (r) yr_rules_destroy(r);
    }
    if (first_reject < 0) emit_c15("limit-not-enforced", "boundary|regex-jump-sweep|never-rejected", std::string("shape ") + SHAPES[shape] + " accepted up to 150 classes", rp, reported, st);
  }
  if (!library_usable()) emit_c15("unusable-after-limit", "boundary|regex-jump-sweep|library-unusable-afterwards", "follow-up compile+scan failed", rp, reported, st);
}


// Loops whose range ends at the largest integer: the iteration must end (no timeout is set: a hang here is a hang
// in real life) and the quantifier must see exactly the values of the range.
static void run_loop_int64_max(Stats& st, std::set<std::string>& reported) {
  J rp = J::obj(); rp.set("engine", "sim_clock"); rp.set("mode", "limits"); rp.set("boundary", "@loop-int64-max");
  struct K { const char* cond; bool expect; };
  static const K ks[] = {
    {"for any i in (9223372036854775806..9223372036854775807) : ( i == 5 )", false},
    {"for all i in (9223372036854775806..9223372036854775807) : ( i > 0 )", true},
    {"for 2 i in (9223372036854775805..9223372036854775807) : ( i % 2 == 1 )", true},
    {"for any i in (9223372036854775807..9223372036854775807) : ( i == 9223372036854775807 )", true},
    {"for any i in (0..filesize) : ( i == filesize )", true},
  };
  for (auto& k : ks) {
    YR_RULES* r = compile_simple(std::string("rule x { condition: ") + k.cond + " }");
    IsoResult iso = sim_isolate([&] { Recorder rec; std::string b = "abc"; int rc = yr_rules_scan_mem(r, (const uint8_t*) b.data(), b.size(), 0, recorder_callback, &rec, 0); iso_emit(std::string(yr_error_name(rc)) + (rec.text.find("MATCH default:x") == 0 || rec.text.find("\nMATCH default:x") != std::string::npos ? " match" : " nomatch")); }, 20);
    st.runs++; st.c["boundary.loop-int64-max"]++; Hash64 h; h.add("l64"); h.add(k.cond); st.hash(h.h);
    std::string at = std::string(k.cond) + ": ";
    if (iso.kind == 3) emit_c15("hang", "boundary|loop-int64-max|does-not-terminate", at + "the scan (no timeout set) was still running after 20 s", rp, reported, st);
    else if (iso.kind != 0) emit_c15("limit-memory-error", "boundary|loop-int64-max|" + sim_crash_signature(iso).substr(0, 60), at + iso.err.substr(0, 800), rp, reported, st);
    else if (iso.out != std::string("SUCCESS ") + (k.expect ? "match" : "nomatch")) emit_c15("limit-changes-result", "boundary|loop-int64-max|wrong-verdict", at + "got '" + iso.out + "', the range semantics give " + (k.expect ? "match" : "nomatch"), rp, reported, st);
    yr_rules_destroy(r);
  }
}


// The match cap also applies to the unconfirmed candidates of the early fragments of a chained string.  The data are
// built so that the string does match (the tail follows, at a distance inside the jump, candidates that lie beyond
// the cap): the scan must either report the match or have delivered the too-many-matches warning for that string -
// never neither.
static void run_chained_cap(Stats& st, std::set<std::string>& reported) {
  J rp = J::obj(); rp.set("engine", "sim_clock"); rp.set("mode", "limits"); rp.set("boundary", "@chained-cap");
  const char* RULES = "rule chain { strings: $c = { 41 41 41 41 [300-400] 42 43 44 45 } condition: $c }\nrule by1 { strings: $x = \"bystander\" condition: $x }\nrule by2 { condition: filesize > 10 }\n";
  const char* WITHOUT = "rule by1 { strings: $x = \"bystander\" condition: $x }\nrule by2 { condition: filesize > 10 }\n";
  YR_RULES* r = compile_simple(RULES); YR_RULES* w = compile_simple(WITHOUT);
  for (int n : {YR_MAX_STRING_MATCHES - 10, YR_MAX_STRING_MATCHES + 90, YR_MAX_STRING_MATCHES + 500, YR_MAX_STRING_MATCHES * 4}) {
    std::string b = "a bystander " + std::string((size_t) n + 3, 'A') + std::string(320, 'z') + "BCDE tail";
    Recorder ref; yr_rules_scan_mem(w, (const uint8_t*) b.data(), b.size(), 0, recorder_callback, &ref, 0);
    for (int reply : {CALLBACK_CONTINUE, CALLBACK_ABORT}) {
      Recorder rec; rec.too_many_reply = reply;
      int rc = yr_rules_scan_mem(r, (const uint8_t*) b.data(), b.size(), 0, recorder_callback, &rec, 0);
      st.runs++; st.c["boundary.chained-cap"]++; Hash64 h; h.add("cc"); h.addu(n); h.addu(reply); st.hash(h.h);
      bool matched = rec.text.find("MATCH default:chain ") != std::string::npos && rec.text.find("NOMATCH default:chain") == std::string::npos;
      bool warned = rec.text.find("TOO_MANY $c") != std::string::npos;
      std::string at = std::to_string(n) + " candidates of the first fragment (cap " + std::to_string(YR_MAX_STRING_MATCHES) + "), reply " + (reply == CALLBACK_CONTINUE ? "continue" : "abort") + ": ";
      if (warned) st.c["faults_fired.too_many_matches_chained"]++;
      if (reply == CALLBACK_ABORT && warned) { if (rc != ERROR_TOO_MANY_MATCHES) emit_c15("limit-warning", std::string("boundary|chained-cap|abort|rc=") + yr_error_name(rc), at + "scan returned " + yr_error_name(rc), rp, reported, st); continue; }
      if (rc != ERROR_SUCCESS) { emit_c15("limit-wrong-error", std::string("boundary|chained-cap|rc=") + yr_error_name(rc), at + "scan returned " + yr_error_name(rc), rp, reported, st); continue; }
      if (!matched && !warned) emit_c15("limit-hit-silent", "boundary|chained-cap|match-lost-without-warning", at + "the chained string matches these data, but the scan reports no match and delivered no warning", rp, reported, st);
      if (n < YR_MAX_STRING_MATCHES && warned) emit_c15("limit-warning", "boundary|chained-cap|warning-below-the-cap", at + "warning although the cap was not reached", rp, reported, st);
      // the other rules are not affected
      auto strip = [](const std::string& t) { std::string o; size_t p = 0; while (p < t.size()) { size_t e = t.find('\n', p); std::string l = t.substr(p, e - p + 1); p = e + 1; if (l.find("default:chain") != std::string::npos || l.rfind("TOO_MANY", 0) == 0) continue; o += l; } return o; };
      if (strip(rec.text) != strip(ref.text)) emit_c15("limit-hit-changes-bystanders", "boundary|chained-cap|bystander-result-differs", at + "other rules' results differ", rp, reported, st);
    }
  }
  yr_rules_destroy(r); yr_rules_destroy(w);
}


// a circular include chain through real files: the documented error, no crash, no endless recursion
static void run_include_cycle(Stats& st, std::set<std::string>& reported) {
  J rp = J::obj(); rp.set("engine", "sim_clock"); rp.set("mode", "limits"); rp.set("boundary", "@include-cycle");
  std::string d = tmp_dir() + "/c15cyc"; mkdir(d.c_str(), 0755);
  for (int len : {1, 2, 3, 7}) {
    for (int i = 1; i <= len; i++) write_file(d + "/c" + std::to_string(i) + ".yar", "include \"c" + std::to_string(i % len + 1) + ".yar\"\nrule r" + std::to_string(i) + " { condition: true }\n");
    std::string src = "include \"" + d + "/c1.yar\"\nrule top { condition: true }";
    IsoResult iso = sim_isolate([&] { int le = 0; int e = compile_err(src, le); iso_emit(std::to_string(e) + " " + std::to_string(le)); }, 30);
    st.runs++; st.c["boundary.include-cycle"]++; Hash64 h; h.add("cyc"); h.addu(len); st.hash(h.h);
    std::string at = "cycle of " + std::to_string(len) + " include file(s): ";
    if (iso.kind == 3) emit_c15("hang", "boundary|include-cycle|does-not-terminate", at + "still compiling after 30 s", rp, reported, st);
    else if (iso.kind != 0) emit_c15("limit-memory-error", "boundary|include-cycle|" + sim_crash_signature(iso).substr(0, 60), at + iso.err.substr(0, 800), rp, reported, st);
    else { st.c["faults_fired.limit_exceeded"]++; if (iso.out.rfind("0 ", 0) == 0) emit_c15("limit-not-enforced", "boundary|include-cycle|accepted", at + "compiled without error", rp, reported, st); else if (int code = atoi(iso.out.substr(iso.out.find(' ') + 1).c_str()); code != ERROR_INCLUDES_CIRCULAR_REFERENCE && code != ERROR_INCLUDE_DEPTH_EXCEEDED && code != ERROR_SYNTAX_ERROR) emit_c15("limit-wrong-error", "boundary|include-cycle|error=" + iso.out.substr(iso.out.find(' ') + 1), at + iso.out, rp, reported, st); }
  }
  if (!library_usable()) emit_c15("unusable-after-limit", "boundary|include-cycle|library-unusable-afterwards", "follow-up compile+scan failed", rp, reported, st);
}

static void run_boundaries(Stats& st, std::set<std::string>& reported, const std::string& only = "") {
  if (only.empty() || only == "@scanner-after-limit") run_scanner_after_limit(st, reported);
  if (only.empty() || only == "@stack-sweep") run_stack_sweep(st, reported);
  if (only.empty() || only == "@slow-warning") run_slow_warning(st, reported);
  if (only.empty() || only == "@regex-jump-sweep") run_regex_jump_sweep(st, reported);
  if (only.empty() || only == "@loop-int64-max") run_loop_int64_max(st, reported);
  if (only.empty() || only == "@chained-cap") run_chained_cap(st, reported);
  if (only.empty() || only == "@include-cycle") run_include_cycle(st, reported);
  if (!only.empty() && only[0] == '@') return;
  std::vector<Lim> lims;
  lims.push_back({"loop-nesting", YR_MAX_LOOP_NESTING, [](int n, int& e, int& le, int& rc) { std::string c = "true"; for (int i = n; i >= 1; i--) c = "for any v" + std::to_string(i) + " in (0..1) : ( " + c + " )"; e = compile_err("rule x { condition: " + c + " }", le); rc = 0; }, {ERROR_LOOP_NESTING_LIMIT_EXCEEDED}});
  lims.push_back({"strings-per-rule", 8, [](int n, int& e, int& le, int& rc) { yr_set_configuration_uint32(YR_CONFIG_MAX_STRINGS_PER_RULE, 8); std::string s = "rule x { strings:\n"; for (int i = 0; i < n; i++) s += "$s" + std::to_string(i) + " = \"str_" + std::to_string(i) + "_\"\n"; e = compile_err(s + "condition: any of them }", le); yr_set_configuration_uint32(YR_CONFIG_MAX_STRINGS_PER_RULE, 10000); rc = 0; }, {ERROR_TOO_MANY_STRINGS}});
  // the same limit when the excess consists of strings the condition never mentions (`$_...` may stay unreferenced): they are compiled and scanned like any other
  lims.push_back({"strings-per-rule-unreferenced", 8, [](int n, int& e, int& le, int& rc) { yr_set_configuration_uint32(YR_CONFIG_MAX_STRINGS_PER_RULE, 8); std::string s = "rule x { strings:\n$a = \"referenced_one\"\n"; for (int i = 1; i < n; i++) s += "$_u" + std::to_string(i) + " = \"unref_" + std::to_string(i) + "_\"\n"; e = compile_err(s + "condition: $a }", le); yr_set_configuration_uint32(YR_CONFIG_MAX_STRINGS_PER_RULE, 10000); rc = 0; }, {ERROR_TOO_MANY_STRINGS}});
  lims.push_back({"strings-per-rule-mixed", 8, [](int n, int& e, int& le, int& rc) { yr_set_configuration_uint32(YR_CONFIG_MAX_STRINGS_PER_RULE, 8); std::string s = "rule x { strings:\n"; for (int i = 0; i < n; i++) s += std::string(i % 2 ? "$_u" : "$r") + std::to_string(i) + " = \"mixed_" + std::to_string(i) + "_\"\n"; e = compile_err(s + "condition: any of ($r*) }", le); yr_set_configuration_uint32(YR_CONFIG_MAX_STRINGS_PER_RULE, 10000); rc = 0; }, {ERROR_TOO_MANY_STRINGS}});
  lims.push_back({"include-depth", YR_MAX_INCLUDE_DEPTH, [](int n, int& e, int& le, int& rc) { std::map<std::string, std::string> inc; for (int i = 1; i <= n; i++) inc["f" + std::to_string(i)] = i < n ? "include \"f" + std::to_string(i + 1) + "\"\n" : "rule deepest { condition: true }\n"; e = compile_err("include \"f1\"\nrule top { condition: true }", le, nullptr, &inc); rc = 0; }, {ERROR_INCLUDE_DEPTH_EXCEEDED, ERROR_SYNTAX_ERROR}});
  // the same through yara's own include callback and real files, and a circular chain
  lims.push_back({"include-depth-files", YR_MAX_INCLUDE_DEPTH, [](int n, int& e, int& le, int& rc) { std::string d = tmp_dir() + "/c15inc"; mkdir(d.c_str(), 0755); for (int i = 1; i <= n; i++) write_file(d + "/f" + std::to_string(i) + ".yar", i < n ? "include \"f" + std::to_string(i + 1) + ".yar\"\n" : "rule deepest { condition: true }\n"); e = compile_err("include \"" + d + "/f1.yar\"\nrule top { condition: true }", le); rc = 0; }, {ERROR_INCLUDE_DEPTH_EXCEEDED, ERROR_SYNTAX_ERROR}});
  lims.push_back({"identifier-length", 128, [](int n, int& e, int& le, int& rc) { e = compile_err("rule " + std::string(n, 'r') + " { condition: true }", le); rc = 0; }, {ERROR_SYNTAX_ERROR}});
  lims.push_back({"integer-literal", 18, [](int n, int& e, int& le, int& rc) { e = compile_err("rule x { condition: filesize < " + (n <= 18 ? std::string(n, '9') : n == 19 ? std::string("9223372036854775808") : std::string(n, '9')) + " }", le); rc = 0; }, {ERROR_INTEGER_OVERFLOW, ERROR_SYNTAX_ERROR}});
  lims.push_back({"regex-size", 4000, [](int n, int& e, int& le, int& rc) { std::string re; for (int i = 0; i < (n < 8 ? 1 : n / 8); i++) re += "(ab|cd)x"; e = compile_err("rule x { strings: $r = /" + re + "/ condition: $r }", le); rc = 0; }, {ERROR_REGULAR_EXPRESSION_TOO_LARGE, ERROR_REGULAR_EXPRESSION_TOO_COMPLEX, ERROR_INVALID_REGULAR_EXPRESSION, ERROR_SYNTAX_ERROR}});
  lims.push_back({"regex-split-ids", RE_MAX_SPLIT_ID, [](int n, int& e, int& le, int& rc) { std::string re; for (int i = 0; i < n; i++) re += "a?"; e = compile_err("rule x { strings: $r = /" + re + "zq/ condition: $r }", le); rc = 0; }, {ERROR_REGULAR_EXPRESSION_TOO_COMPLEX, ERROR_REGULAR_EXPRESSION_TOO_LARGE}});
  lims.push_back({"stack-size", 64, [](int n, int& e, int& le, int& rc) { yr_set_configuration_uint32(YR_CONFIG_STACK_SIZE, 64); std::string c = "1"; for (int i = 0; i < n; i++) c = "(1 + " + c + ")"; YR_RULES* r = NULL; e = compile_err("rule x { condition: " + c + " > 0 or filesize < 0 }", le, &r); rc = 0; if (r) { Recorder rec; std::string b = "x"; rc = yr_rules_scan_mem(r, (const uint8_t*) b.data(), 1, 0, recorder_callback, &rec, 0); yr_rules_destroy(r); } yr_set_configuration_uint32(YR_CONFIG_STACK_SIZE, 16384); }, {ERROR_EXEC_STACK_OVERFLOW}});
  lims.push_back({"re-fibers", 20, [](int n, int& e, int& le, int& rc) { YR_RULES* r = NULL; e = compile_err("rule x { strings: $r = /([a-z0-9_-]{1,32}\\.?){1,16}@example\\.com/ condition: $r }", le, &r); rc = 0; if (r) { Recorder rec; std::string b = "xx " + std::string(n, 'a') + "@example.com"; rc = yr_rules_scan_mem(r, (const uint8_t*) b.data(), b.size(), 0, recorder_callback, &rec, 0); yr_rules_destroy(r); } }, {ERROR_TOO_MANY_RE_FIBERS}});
  lims.push_back({"match-data", 32, [](int n, int& e, int& le, int& rc) { yr_set_configuration_uint32(YR_CONFIG_MAX_MATCH_DATA, 32); YR_RULES* r = NULL; e = compile_err("rule x { strings: $r = /m[a]+z/ condition: $r }", le, &r); rc = 0; if (r) { Recorder rec; std::string b = "m" + std::string(n, 'a') + "z"; rc = yr_rules_scan_mem(r, (const uint8_t*) b.data(), b.size(), 0, recorder_callback, &rec, 0); if (rc == ERROR_SUCCESS) { size_t p = rec.text.find(",0,"); size_t q = rec.text.find(')', p); if (p != std::string::npos && (q - p - 3) / 2 > 32) rc = -77; } yr_rules_destroy(r); } yr_set_configuration_uint32(YR_CONFIG_MAX_MATCH_DATA, 512); }, {}});
  for (auto& l : lims) {
    if (!only.empty() && only != l.name) continue;
    int pts[] = {1, l.L - 1, l.L, l.L + 1, l.L * 10};
    bool seen_error = false;
    for (int n : pts) {
      if (n < 1) continue;
      int e = 0, le = 0, rc = 0; l.run(n, e, le, rc);
      st.runs++; st.c[std::string("boundary.") + l.name]++;
      Hash64 h; h.add(l.name); h.addu(n); st.hash(h.h);
      J rp = J::obj(); rp.set("engine", "sim_clock"); rp.set("mode", "limits"); rp.set("boundary", l.name);
      bool is_err = e != 0 || rc != ERROR_SUCCESS;
      int code = e ? le : rc;
      std::string at = std::string(l.name) + " at " + std::to_string(n) + " (limit " + std::to_string(l.L) + "): ";
      if (is_err) { bool ok = false; for (int x : l.expect_errors) if (x == code) ok = true; if (!ok) emit_c15("limit-wrong-error", std::string("boundary|") + l.name + "|error=" + yr_error_name(code), at + "unexpected error " + yr_error_name(code), rp, reported, st); seen_error = true; st.c["faults_fired.limit_exceeded"]++; }
      else { if (seen_error) emit_c15("limit-not-monotone", std::string("boundary|") + l.name + "|accepted-above-a-rejected-size", at + "accepted although a smaller size was rejected", rp, reported, st); if (n == 1 && false) {} }
      if (n == 1 && is_err) emit_c15("limit-wrong-error", std::string("boundary|") + l.name + "|rejected-far-below-limit", at + "rejected far below the limit with " + yr_error_name(code), rp, reported, st);
      if (n == l.L * 10 && !is_err && !l.expect_errors.empty()) emit_c15("limit-not-enforced", std::string("boundary|") + l.name + "|accepted-far-beyond-limit", at + "accepted far beyond the limit", rp, reported, st);
      if (!library_usable()) emit_c15("unusable-after-limit", std::string("boundary|") + l.name + "|library-unusable-afterwards", at + "follow-up compile+scan failed", rp, reported, st);
    }
  }
}

int main(int argc, char** argv) {
  Args args(argc, argv);
  sim_symbolize((void*) &main);
  std::string cmd = args.pos.empty() ? "run" : args.pos[0];
  yr_initialize();
  Stats st; std::set<std::string> reported;
  std::vector<Work> works = make_works();
  if (cmd == "replay") {
    J rp; if (args.pos.size() < 2 || !J::load(args.pos[1], rp)) return 2;
    const J& c = rp.has("replay") ? rp["replay"] : rp;
    if (c["mode"].str() == "time") { for (size_t i = 0; i < works.size(); i++) if (c["work"].str() == works[i].name) { if (c["j"].num() >= 0) run_time_work(works[i], (int) i, false, 1, st, reported, (int) c["scale"].num(), c["j"].num()); else run_time_work(works[i], (int) i, c["scale"].num() >= 3, 1, st, reported); } }
    else if (c.has("boundary")) run_boundaries(st, reported, c["boundary"].str());
    else run_limit_case((uint64_t) c["seed"].num(), c["case"].num(), st, reported);
    J done = J::obj(); done.set("t", "replayed"); emit_line(done);
    return 0;
  }
  Shard sh = parse_shard(args);
  bool thorough = args.get("tier", "quick") == "thorough";
  uint64_t seed = args.num("seed", 1); int64_t from = args.num("from", 0);
  std::string mode = args.get("mode", "time");
  double budget = (double) args.num("budget", thorough ? 1200 : 60), t0 = now_s();
  if (mode == "time") {
    for (size_t i = from; i < works.size(); i++) {
      if (!sh.mine(i)) continue;
      { J b = J::obj(); b.set("t", "begin"); b.set("run", (int64_t) i); J rp = J::obj(); rp.set("engine", "sim_clock"); rp.set("mode", "time"); rp.set("work", works[i].name); rp.set("scale", thorough ? 3 : 2); rp.set("j", -1); b.set("replay", rp); emit_line(b); }
      run_time_work(works[i], (int) i, thorough, seed, st, reported);
      st.c["workloads"]++;
      { J e = J::obj(); e.set("t", "end"); emit_line(e); }
      st.flush(false);
    }
  } else {
    if (sh.w == 0 && from == 0) run_boundaries(st, reported);
    int64_t n = args.num("cases", thorough ? 20000 : 400);
    for (int64_t i = from; i < n; i++) {
      if (!sh.mine(i)) continue;
      if (now_s() - t0 > budget) { st.c["stopped_by_budget"]++; break; }
      { J b = J::obj(); b.set("t", "begin"); b.set("run", i); J rp = J::obj(); rp.set("engine", "sim_clock"); rp.set("mode", "limits"); rp.set("seed", (int64_t) seed); rp.set("case", i); b.set("replay", rp); emit_line(b); }
      run_limit_case(seed, i, st, reported);
      { J e = J::obj(); e.set("t", "end"); emit_line(e); }
      if (st.hashes.size() > 2000) st.flush(false);
    }
  }
  st.flush();
  yr_finalize();
  return 0;
}
